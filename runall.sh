#!/bin/sh
# runs every check of a tier in sequence; prints one line per property
TIER="${1:-quick}"
cd "$(dirname "$0")"
mkdir -p /tmp/vlogs
for i in 01 02 03 04 05 06 07 08 09 10 11 12 13 14 15 16 17 18 19; do
  p=C$i
  s=$(date +%s)
  ./check $p $TIER > /tmp/vlogs/$p.$TIER.log 2>&1
  rc=$?
  e=$(date +%s)
  echo "$p $TIER exit=$rc wall=$((e-s))s $(grep -c '^VIOLATION' /tmp/vlogs/$p.$TIER.log) violations $(grep -c '^INCONCLUSIVE' /tmp/vlogs/$p.$TIER.log) inconclusive"
done
