#!/usr/bin/env python3
# Regenerates MANIFEST.json (kept in the repository; run by hand when checks change).
import json
props=[json.loads(l) for l in open('/verif/properties.jsonl')]
level={p['id']:'model_checking' for p in props}
level['C13']='other'
text={
 'C01':"Bounded symbolic execution of the real setters, two-pass encoders and decoders (go/ssa of /repo's working tree) on abstract packets with symbolic values; every accessor comparison is one SMT query over all values of the shape. Complete within the stated shapes, nothing claimed between boundary lengths.",
 'C02':"As C01 with an independent oracle: a strict specification-derived decoder, itself executed symbolically, must accept exactly what WriteTo wrote and read back the values set.",
 'C03':"Frames of the valid-frame language (reference encoder: property orders, short forms, explicit zeros) with symbolic values, and all byte strings up to N_max classified by the symbolic reference decoder: acceptance and every accessor decided by SMT for all values.",
 'C04':"All byte strings up to N_max for every type, windowed damage of valid frames and all prefixes: every bounds check of the compiled code is a solver query, so a reachable panic comes with a concrete input that is replayed natively.",
 'C05':"The same explorations with step and allocation meters as unwinding assertions (no silent unwinding limit) and list-length assertions; a non-terminating path is reported with its input and confirmed natively under a watchdog.",
 'C06':"One ReadPacket step from an arbitrary stream position with symbolic frame and trailing bytes; exact consumption and a two-run non-interference query on the trailing bytes; short sequences end-to-end.",
 'C07':"Delivery schedules are solver variables: chunk sizes per Read are symbolic integers constrained by the io.Reader contract and enumerated by the solver; contiguous and fragmented reads of the same symbolic frame must agree.",
 'C08':"Cut offset and failure kind are symbolic/enumerated over every offset of symbolic frames; nil packet, non-nil error and errors.Is relations asserted on every path.",
 'C09':"Every in-field cut of reference-encoded frames, one symbol for all 254 bad boolean values, one symbol for all 229 undefined identifiers, symbolic 5-byte varints at every varint position, plus classification of all short byte strings by the reference decoder.",
 'C10':"WriteTo against accepting, failing and short-writing writer stubs (accepted count symbolic); frame size, returned count/error and the size printed by String() (rope query on the symbolic fmt result) compared by SMT.",
 'C11':"Map iteration order is an explicit schedule parameter of the interpreter (insertion, reverse, alternating, rotations); all encodings of a symbolic packet must be byte-identical and accessors unchanged; native confirmation by repeated encoding.",
 'C12':"Each public setter applied to an arbitrary API-built state and in short histories from a fresh packet, symbolic arguments, compared after every call with a record-of-fields model and with the reference decoder's reading of the written frame.",
 'C13':"Sufficient condition decided symbolically: no write to memory that existed before the read-only operations began, on any feasible path (write-set monitor in the interpreter); the schedule quantifier is discharged by the read-only lemma, interleavings are not explored.",
 'C14':"After decoding, every input byte is overwritten with a fresh symbol and the solver is asked whether any accessor can change; bystander packets and package-level state are monitored while another packet is modified.",
 'C15':"The whole 2^28 value domain and all byte sequences of length 0..5 decided symbolically on the real codec against shift/mask reference arithmetic.",
 'C16':"The first byte is one symbol covering all 256 values; dispatch, header flags and re-encoding asserted for each type with valid bodies from the reference encoder.",
 'C17':"WellFormed and String() on packets with symbolic topic alias, QoS bits, packet identifier, option bytes and subscription identifier (whole int range), compared with the documented predicate written out independently.",
 'C18':"Non-interference by self-composition: two CONNECTs differing only in credential contents rendered to ropes by the symbolic fmt model and compared piecewise by SMT for all secret values.",
 'C19':"Renderers executed symbolically on zero values, packets under construction, receivers of failed and successful decodes of arbitrary bytes; one symbolic byte per table-driven rendering; panic and non-termination are path outcomes.",
}
note="Trusted: go/ssa's translation; the interpreter's semantics of the SSA instructions used (sampled paths re-executed natively, all observations compared); the intrinsics (fmt rope model, errors, strings.Builder, bytes.Repeat, strconv, time.Duration.String); cvc5 (sat models re-evaluated by the engine, unsat answers cross-checked with z3); the specification-derived reference codec. Bounds are listed per run in the evidence file; nothing is claimed outside them."
checks=[]
for p in props:
    i=p['id']
    checks.append({
      "property_id": i,
      "quick_cmd": f"./check {i} quick",
      "thorough_cmd": f"./check {i} thorough",
      "evidence_file": f"/verif/evidence/{i}.json",
      "replay_cmd_template": "./check --replay {path}",
      "engine": "gosym",
      "level_claimed": {"category": level[i], "text": text[i], "design_ref": f"DESIGN.md §4 {i}"},
      "level_note": note if i!='C13' else note+" C13 additionally relies on the lemma that operations without writes to shared memory cannot race; locks, sync.Once and sync/atomic are modelled as a locking discipline (lockset); what that monitor flags is a violation only if the race-detector build reproduces it, and when the library uses sync a sample of paths is also run under the race detector.",
      "technique": "bounded symbolic execution of go/ssa + SMT (cvc5, z3 cross-check), native replay" if i!='C13' else "symbolic write-set analysis (bounded symbolic execution of go/ssa + SMT) discharging the read-only premise",
    })
m={
 "version": 1,
 "setup_cmd": "cd /verif/engine && GOFLAGS=-mod=mod GOPROXY=off GOSUMDB=off GOTOOLCHAIN=local go build -o ../bin/verif . && cd /verif && VERIF_HOME=/verif ./bin/verif selftest",
 "hooks": {
   "guard": "verif",
   "enable": "no source changes in /repo: the harness (package mq files under /verif/harness, all '//go:build verif') is injected by go/packages Overlay for the engine and by 'go test -tags verif -overlay' for native replay",
   "baseline_off_cmd": "cd /repo && GOFLAGS=-mod=mod go test -vet=off -count=1 ./...",
   "source_commits": [],
   "add_only": True
 },
 "engines": [{"name":"gosym","path":"/verif/engine","serves_properties":[p['id'] for p in props],
   "kind_free_text":"forking symbolic executor for go/ssa (re-execution DFS over decision prefixes), bit-vector terms with hash-consing and bit-slice rewrites, SMT-LIB2 over pipes to cvc5 (z3 cross-check), per-path native translation validation and counterexample replay"}],
 "checks": checks,
 "not_applicable": [],
 "notes": "Exit codes: 0 held on everything explored (KNOWN-FINDING lines possible), 1 replayed violation (VIOLATION property=<id> replay=<path>), 2 inconclusive (cannot build, solver unknown/disagreement, vacuity marker missing, encoding mismatch, wall-clock limit of the tier: 15 min quick / 150 min thorough). NOTE lines do not change the exit code: they report decisions narrowed to one alternative (a reduced bound, also in the evidence) or a lockset report the race detector did not reproduce. Known findings: /verif/known_findings.txt. Seeded property-breaking changes: /verif/seeded; property-preserving changes used for false-alarm testing: /verif/benign."
}
json.dump(m, open('/verif/MANIFEST.json','w'), indent=1)
print("ok")
