package main

import (
	"fmt"
	"go/types"

	"golang.org/x/tools/go/ssa"
)

// Val is any interpreter value:
//
//	Sc (scalar: bool or integer), Str, Ptr, Slice, Struct, Array, *Map, Iface,
//	*ssa.Function, *ssa.Builtin, *Closure, Tuple, *MapIter, *ErrV
type Val interface{}

// Sc is a boolean (W==0) or W-bit integer, concrete (T==nil) or symbolic.
type Sc struct {
	W uint8
	C uint64
	T *Term
}

func (s Sc) IsConc() bool { return s.T == nil }

// Str is an immutable string. Flat form: B (bytes, possibly symbolic, concrete
// length). Rope form (R != nil): a sequence of pieces some of which are opaque
// renderings by fmt of symbolic values (length unknown).
type Str struct {
	B []Sc
	R []Piece
}

// Piece is one piece of a rope: literal/symbolic bytes or an opaque rendering.
type Piece struct {
	Lit []Sc
	Op  *Opaque
}

// Opaque is fmt.Sprintf(Verb, value of Go kind Kind built from Args).
type Opaque struct {
	Verb string
	Kind string // bool, uint8.., int.., string, []byte, []uint8, []uint32, duration, substr
	Args []Sc
	Aux  string // substr: the constant string
}

type Obj struct {
	ID        int
	Cells     []Val
	Site      string
	Global    bool
	Released  bool // handed back to a sync.Pool
	PoolOwned bool // obtained from a sync.Pool: private to the goroutine until Put
}

type Ptr struct {
	Slot *Val
	Obj  *Obj
}

type Slice struct {
	Obj           *Obj
	Off, Len, Cap int
}

// FloatV stands for floating point values, which the engine does not model.
type FloatV struct{}

type Struct []Val
type Array []Val
type Tuple []Val

type Map struct {
	Keys []Val // concrete Sc or Str keys
	Vals []Val
	Obj  *Obj
}

type MapIter struct {
	m     *Map
	order []int
	pos   int
}

type Iface struct {
	T types.Type
	V Val
}

type Closure struct {
	Fn  *ssa.Function
	Env []Val
}

// ErrV models errors created by fmt.Errorf / errors.New.
type ErrV struct {
	Msg     Str
	Wrapped Val // Iface or nil
	Name    string
}

func concInt(w int, v uint64) Sc { return Sc{W: uint8(w), C: v & mask(w)} }
func concBool(b bool) Sc {
	if b {
		return Sc{W: 0, C: 1}
	}
	return Sc{W: 0, C: 0}
}

func intWidth(t types.Type) (w int, signed bool, ok bool) {
	b, isB := t.Underlying().(*types.Basic)
	if !isB {
		return 0, false, false
	}
	switch b.Kind() {
	case types.Bool, types.UntypedBool:
		return 0, false, true
	case types.Int8:
		return 8, true, true
	case types.Int16:
		return 16, true, true
	case types.Int32, types.UntypedRune:
		return 32, true, true
	case types.Int64, types.Int, types.UntypedInt:
		return 64, true, true
	case types.Uint8:
		return 8, false, true
	case types.Uint16:
		return 16, false, true
	case types.Uint32:
		return 32, false, true
	case types.Uint64, types.Uint, types.Uintptr:
		return 64, false, true
	}
	return 0, false, false
}

func isString(t types.Type) bool {
	b, ok := t.Underlying().(*types.Basic)
	return ok && b.Info()&types.IsString != 0
}

func strOf(s string) Str {
	b := make([]Sc, len(s))
	for i := 0; i < len(s); i++ {
		b[i] = Sc{W: 8, C: uint64(s[i])}
	}
	return Str{B: b}
}

func (s Str) Conc() (string, bool) {
	if s.R != nil {
		return "", false
	}
	b := make([]byte, len(s.B))
	for i, c := range s.B {
		if c.T != nil {
			return "", false
		}
		b[i] = byte(c.C)
	}
	return string(b), true
}

func (in *Interp) newObj(n int, site string) *Obj {
	in.objSeq++
	return &Obj{ID: in.objSeq, Cells: make([]Val, n), Site: site}
}

func (in *Interp) zero(t types.Type) Val {
	switch u := t.Underlying().(type) {
	case *types.Basic:
		if isString(t) {
			return Str{}
		}
		if w, _, ok := intWidth(t); ok {
			return Sc{W: uint8(w)}
		}
		if u.Kind() == types.UnsafePointer {
			return Ptr{}
		}
		if u.Kind() == types.UntypedNil {
			return nil
		}
		if u.Info()&(types.IsFloat|types.IsComplex) != 0 {
			return FloatV{} // placeholder: any operation on it is unsupported
		}
		panic(pathEnd{"inconclusive", "zero of basic " + t.String()})
	case *types.Pointer:
		return Ptr{}
	case *types.Slice:
		return Slice{}
	case *types.Map:
		return (*Map)(nil)
	case *types.Struct:
		s := make(Struct, u.NumFields())
		for i := range s {
			s[i] = in.zero(u.Field(i).Type())
		}
		return s
	case *types.Array:
		a := make(Array, u.Len())
		for i := range a {
			a[i] = in.zero(u.Elem())
		}
		return a
	case *types.Interface:
		return Iface{}
	case *types.Signature:
		return (*ssa.Function)(nil)
	case *types.Tuple:
		tu := make(Tuple, u.Len())
		for i := range tu {
			tu[i] = in.zero(u.At(i).Type())
		}
		return tu
	}
	panic(pathEnd{"inconclusive", fmt.Sprintf("zero of %T %s", t.Underlying(), t)})
}

// copyVal copies aggregates (value semantics).
func copyVal(v Val) Val {
	switch v := v.(type) {
	case Struct:
		c := make(Struct, len(v))
		for i := range v {
			c[i] = copyVal(v[i])
		}
		return c
	case Array:
		c := make(Array, len(v))
		for i := range v {
			c[i] = copyVal(v[i])
		}
		return c
	}
	return v
}

// store writes v into *addr elementwise for aggregates so derived pointers stay valid.
func store(addr *Val, v Val) {
	switch rhs := v.(type) {
	case Struct:
		lhs, ok := (*addr).(Struct)
		if !ok || len(lhs) != len(rhs) {
			*addr = copyVal(v)
			return
		}
		for i := range lhs {
			store(&lhs[i], rhs[i])
		}
	case Array:
		lhs, ok := (*addr).(Array)
		if !ok || len(lhs) != len(rhs) {
			*addr = copyVal(v)
			return
		}
		for i := range lhs {
			store(&lhs[i], rhs[i])
		}
	default:
		*addr = v
	}
}
