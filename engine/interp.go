package main

import (
	"fmt"
	"go/constant"
	"go/token"
	"go/types"
	"os"
	"strings"

	"golang.org/x/tools/go/ssa"
)

var traceOn = os.Getenv("VERIF_TRACE") != ""

type Frame struct {
	fn          *ssa.Function
	env         map[ssa.Value]Val
	slots       []Val
	block, prev *ssa.BasicBlock
	lib         bool
	fmtCode     bool // strconv or a helper called by it
	phiDone     bool // the phis of the block about to run were set by if-conversion
	ifRet       Val  // merged return value of an if-converted pair of returns
	defers      []func()
}

// World is what is shared (read-only) between workers.
type World struct {
	prog      *ssa.Program
	mq        *ssa.Package
	sizes     types.Sizes
	errT      types.Type // dynamic type given to engine-made errors
	harnessFn map[*ssa.Function]bool
	fnName    map[*ssa.Function]string
	fnShort   map[*ssa.Function]string
	valIdx    map[ssa.Value]int32
	fnSlots   map[*ssa.Function]int32
	// package-level variables of dependencies that their (not executed)
	// initialisers would set
	initStores map[*ssa.Global]bool
	pureInitOf map[*ssa.Package]*ssa.Function // initialisers of whitelisted pure packages, run on first use of one of their variables
	usesSync   bool                           // the library calls sync (other than Pool) or sync/atomic: lockset tracking is on
}

func (w *World) short(fn *ssa.Function) string {
	if s, ok := w.fnShort[fn]; ok {
		return s
	}
	return shortFn(fn.String())
}

// Violation is a property violation found on a path.
type Violation struct {
	Label string
	Model map[string]uint64
	Where string // innermost library function for panics / budget
	Kind  string // assert, panic, budget
	Order bool   // depends on a non-default map iteration order
}

type Interp struct {
	w       *World
	tt      *TermTable
	ex      *Explorer
	globals map[*ssa.Global]Ptr
	objSeq  int

	steps       int
	stepBudget  int
	allocBytes  int
	allocBudget int
	stack       []*Frame
	funcsRun    map[string]int

	emits           []Emit
	reach           map[string]bool
	viols           []Violation
	orderMode       string // "", "fwdrev", "all"
	orderDev        bool   // a non-default iteration order was taken on this path
	rangeCount      int
	releasedUse     bool
	libDepth        int
	poolMonitor     bool // use-after-Put is a violation (C13, C14)
	runningPureInit bool
	pureDone        map[*ssa.Package]bool
	pools           map[*Val][]Val
	poolChoices     int
	fmtForks        int
	fmtDepth        int // >0: executing a formatting routine on behalf of the rope model
	ifConverted     int
	noIfConv        bool

	initMark     int
	sharedMark   int
	sharedWrites int
	globalWrites int
	writeSites   []string

	builders map[*Val]*[]Piece
	ioErrs   map[string]*ErrV
	locks    *lockState
}

type Emit struct {
	Tag string
	V   Val
}

func (w *World) isHarness(fn *ssa.Function) bool {
	if v, ok := w.harnessFn[fn]; ok {
		return v
	}
	return w.isHarnessSlow(fn)
}

func (in *Interp) term(s Sc) *Term {
	if s.T != nil {
		return s.T
	}
	return in.tt.Const(int(s.W), s.C)
}

func (in *Interp) fromTerm(t *Term) Sc {
	if t.IsConst() {
		return Sc{W: uint8(t.W), C: t.C}
	}
	return Sc{W: uint8(t.W), T: t}
}

// libWhere returns the innermost function of package mq on the stack and
// whether execution is currently in library (non-harness) context.
func (in *Interp) libWhere() (string, bool) {
	if len(in.stack) == 0 {
		return "", false
	}
	lib := in.stack[len(in.stack)-1].lib
	for i := len(in.stack) - 1; i >= 0; i-- {
		fr := in.stack[i]
		root := fr.fn
		for root.Parent() != nil {
			root = root.Parent()
		}
		if root.Pkg == in.w.mq || (root.Pkg == nil && strings.Contains(root.String(), "gregoryv/mq")) {
			if fr.lib == lib {
				return fr.fn.String(), lib
			}
		}
	}
	return in.stack[len(in.stack)-1].fn.String(), lib
}

// entryWhere names the library entry point a non-terminating path is in: the
// outermost library frame that is a decoder/encoder/renderer method, so that
// the signature of a budget violation does not depend on where exactly the
// budget ran out.
func (in *Interp) entryWhere() string {
	first := ""
	for _, fr := range in.stack {
		if !fr.lib {
			continue
		}
		root := fr.fn
		for root.Parent() != nil {
			root = root.Parent()
		}
		if root.Pkg != in.w.mq && !(root.Pkg == nil && strings.Contains(root.String(), "gregoryv/mq")) {
			continue
		}
		n := shortFn(fr.fn.String())
		if first == "" {
			first = n
		}
		if strings.Contains(n, "UnmarshalBinary") {
			return n
		}
	}
	return first
}

func (in *Interp) libPanic(kind, msg string) {
	where, lib := in.libWhere()
	if !lib {
		panic(pathEnd{"harness", "panic in harness code: " + kind + " " + msg + " @" + where})
	}
	panic(pathEnd{"panic", kind + "@" + shortFn(where) + "|" + msg})
}

func shortFn(s string) string {
	return strings.ReplaceAll(s, "github.com/gregoryv/mq.", "")
}

func (in *Interp) inconclusive(msg string) {
	panic(pathEnd{"inconclusive", msg})
}

// ---------------------------------------------------------------- monitors

// noteAccess reports the use of memory that was handed back to a sync.Pool.
func (in *Interp) poolChoiceMax() int {
	if in.poolMonitor {
		return 4
	}
	return 2
}

func (in *Interp) noteAccess(o *Obj) { in.noteRead(o, nil) }

func (in *Interp) noteRead(o *Obj, slot *Val) {
	if in.w.usesSync {
		in.lockTrack(o, slot, false)
	}
	if o != nil && o.Released && !in.releasedUse && in.poolMonitor {
		in.releasedUse = true
		in.recordViolation("assert", "monitor: memory handed back to a sync.Pool is used afterwards (another goroutine may own it by then)", in.ex.Model())
	}
}

func (in *Interp) noteWrite(o *Obj) { in.noteWriteAt(o, nil) }

func (in *Interp) noteWriteAt(o *Obj, slot *Val) {
	if o != nil && o.Released && !in.releasedUse && in.poolMonitor {
		in.releasedUse = true
		in.recordViolation("assert", "monitor: memory handed back to a sync.Pool is used afterwards (another goroutine may own it by then)", in.ex.Model())
	}
	held := 0
	if in.w.usesSync {
		held = in.locksHeld()
	}
	// writes by harness code count when the harness was called back by the
	// library (a reader filling the library's buffer)
	if o == nil || !(in.inLib() || in.libDepth > 0) || o.PoolOwned || in.runningPureInit {
		// (a dependency's package initialiser run lazily by the engine ran,
		// in reality, before main)
		return
	}
	if in.initMark > 0 && (o.Global || o.ID <= in.initMark) && held == 0 {
		// (a write under a lock or inside a sync.Once is synchronised state of
		// the package, e.g. a lazily built table; interference between packets
		// through it is the business of the value comparisons)
		in.globalWrites++
		if len(in.writeSites) < 8 {
			w, _ := in.libWhere()
			in.writeSites = append(in.writeSites, "global:"+o.Site+"<-"+shortFn(w))
		}
	}
	if in.sharedMark > 0 && (o.Global || o.ID <= in.sharedMark) && held == 0 {
		in.sharedWrites++
		if len(in.writeSites) < 8 {
			w, _ := in.libWhere()
			in.writeSites = append(in.writeSites, "shared:"+o.Site+"<-"+shortFn(w))
		}
	}
	if in.w.usesSync {
		in.lockTrack(o, slot, true)
	}
}

func (in *Interp) inLib() bool {
	return len(in.stack) > 0 && in.stack[len(in.stack)-1].lib
}

func (in *Interp) noteAlloc(n int) {
	if in.inLib() {
		in.allocBytes += n
		if in.allocBudget > 0 && in.allocBytes > in.allocBudget {
			w, _ := in.libWhere()
			_ = w
			panic(pathEnd{"budget", "alloc@" + in.entryWhere() + "|" + fmt.Sprintf("allocation budget %d bytes exceeded", in.allocBudget)})
		}
	}
}

func (in *Interp) sizeof(t types.Type) int {
	defer func() { recover() }()
	return int(in.w.sizes.Sizeof(t))
}

// ---------------------------------------------------------------- values of operands

func (in *Interp) constVal(c *ssa.Const) Val {
	if c.Value == nil {
		return in.zero(c.Type())
	}
	t := c.Type()
	if isString(t) {
		return strOf(constant.StringVal(c.Value))
	}
	if w, signed, ok := intWidth(t); ok {
		if w == 0 {
			return concBool(constant.BoolVal(c.Value))
		}
		if signed {
			v, _ := constant.Int64Val(constant.ToInt(c.Value))
			return concInt(w, uint64(v))
		}
		v, _ := constant.Uint64Val(constant.ToInt(c.Value))
		return concInt(w, v)
	}
	panic(pathEnd{"inconclusive", "const of type " + t.String()})
}

func (in *Interp) ioErr(name string) Val {
	if e, ok := in.ioErrs[name]; ok {
		return Iface{T: in.w.errT, V: e}
	}
	e := &ErrV{Msg: strOf(name), Name: name}
	in.ioErrs[name] = e
	return Iface{T: in.w.errT, V: e}
}

var ioErrText = map[string]string{
	"EOF": "EOF", "ErrUnexpectedEOF": "unexpected EOF", "ErrShortBuffer": "short buffer",
	"ErrShortWrite": "short write", "ErrNoProgress": "multiple Read calls return no data or error",
	"ErrClosedPipe": "io: read/write on closed pipe",
}

func (in *Interp) globalAddr(g *ssa.Global) Ptr {
	if p, ok := in.globals[g]; ok {
		return p
	}
	if ini := in.w.pureInitOf[g.Pkg]; ini != nil && !in.pureDone[g.Pkg] {
		in.pureDone[g.Pkg] = true
		saved, savedBudget := in.runningPureInit, in.stepBudget
		in.runningPureInit, in.stepBudget = true, 1<<30
		steps := in.steps
		in.runInit(ini)
		in.steps = steps
		in.runningPureInit, in.stepBudget = saved, savedBudget
		if p, ok := in.globals[g]; ok {
			return p
		}
	}
	o := in.newObj(1, "global "+g.String())
	o.Global = true
	o.Cells[0] = in.zero(g.Type().(*types.Pointer).Elem())
	special := false
	if g.Pkg != nil && g.Pkg.Pkg.Path() == "io" {
		if txt, ok := ioErrText[g.Name()]; ok {
			e := &ErrV{Msg: strOf(txt), Name: "io." + g.Name()}
			o.Cells[0] = Iface{T: in.w.errT, V: e}
			special = true
		}
	}
	if !special && in.w.initStores[g] && !in.runningPureInit {
		panic(pathEnd{"inconclusive", "the code reads " + g.String() + ", which is set by a package initialiser the engine does not run"})
	}
	p := Ptr{&o.Cells[0], o}
	in.globals[g] = p
	return p
}

func (fr *Frame) get(in *Interp, v ssa.Value) Val {
	switch v := v.(type) {
	case nil:
		return nil
	case *ssa.Function, *ssa.Builtin:
		return v
	case *ssa.Const:
		return in.constVal(v)
	case *ssa.Global:
		return in.globalAddr(v)
	}
	if fr.slots != nil {
		if i, ok := in.w.valIdx[v]; ok {
			return fr.slots[i]
		}
	}
	if r, ok := fr.env[v]; ok {
		return r
	}
	panic(fmt.Sprintf("get: no value for %T %s in %s", v, v.Name(), fr.fn))
}

func (fr *Frame) set(in *Interp, v ssa.Value, x Val) {
	if fr.slots != nil {
		fr.slots[in.w.valIdx[v]] = x
		return
	}
	fr.env[v] = x
}

// ---------------------------------------------------------------- calls

func (in *Interp) call(fn Val, args []Val) Val {
	switch f := fn.(type) {
	case *ssa.Function:
		if f == nil {
			in.libPanic("nil-func-call", "")
		}
		return in.callFunction(f, args, nil)
	case *Closure:
		if f == nil {
			in.libPanic("nil-func-call", "")
		}
		return in.callFunction(f.Fn, args, f.Env)
	case *ssa.Builtin:
		return in.builtin(f, args)
	case nil:
		in.libPanic("nil-func-call", "")
	}
	panic(fmt.Sprintf("call of %T", fn))
}

func (in *Interp) callFunction(fn *ssa.Function, args []Val, env []Val) Val {
	name, ok := in.w.fnName[fn]
	if !ok {
		name = fn.String()
	}
	if intr, ok := intrinsics[name]; ok && !(in.fmtDepth > 0 && name == "(time.Duration).String") {
		return intr(in, args)
	}
	if in.w.usesSync {
		if r, ok := in.atomicCall(fn, name, args); ok {
			return r
		}
	}
	if fn.Blocks == nil {
		panic(pathEnd{"inconclusive", "external function without intrinsic: " + name})
	}
	if fn.Pkg != nil && fn.Pkg != in.w.mq && fn.Parent() == nil && fn.Signature.Recv() == nil && strings.HasPrefix(fn.Name(), "init") && fn.Synthetic != "" {
		return nil // package initialisers of dependencies are not run
	}
	if in.inLib() || !in.w.isHarness(fn) {
		in.funcsRun[name]++
	}
	fr := &Frame{fn: fn, lib: !in.w.isHarness(fn)}
	if fn.Pkg != nil && (fn.Pkg.Pkg.Path() == "strconv" || (in.fmtDepth > 0 && fn.Pkg.Pkg.Path() == "time")) {
		fr.fmtCode = true
	} else if len(in.stack) > 0 && in.stack[len(in.stack)-1].fmtCode && fn.Pkg != in.w.mq {
		fr.fmtCode = true // helpers called by strconv (unicode/utf8, math/bits)
	}
	if n, ok := in.w.fnSlots[fn]; ok {
		fr.slots = make([]Val, n)
	} else {
		fr.env = make(map[ssa.Value]Val, 16)
	}
	if fn.Pkg != in.w.mq && fn.Pkg != nil && len(in.stack) > 0 {
		// std code inherits the classification of its caller
		fr.lib = in.stack[len(in.stack)-1].lib
	}
	for i, p := range fn.Params {
		fr.set(in, p, args[i])
	}
	for i, fv := range fn.FreeVars {
		fr.set(in, fv, env[i])
	}
	if len(in.stack) > 400 {
		w, _ := in.libWhere()
		_ = w
		panic(pathEnd{"budget", "stack@" + in.entryWhere() + "|call depth exceeded"})
	}
	in.stack = append(in.stack, fr)
	if fr.lib {
		in.libDepth++
	}
	defer func() {
		in.stack = in.stack[:len(in.stack)-1]
		if fr.lib {
			in.libDepth--
		}
	}()
	fr.block = fn.Blocks[0]
	for {
		res, done := in.runBlock(fr)
		if done {
			return res
		}
	}
}

func (in *Interp) runBlock(fr *Frame) (Val, bool) {
	b := fr.block
	// phis first, evaluated simultaneously
	nphi := 0
	var phiVals []Val
	for _, instr := range b.Instrs {
		phi, ok := instr.(*ssa.Phi)
		if !ok {
			break
		}
		nphi++
		if fr.phiDone {
			continue
		}
		for i, pred := range b.Preds {
			if pred == fr.prev {
				phiVals = append(phiVals, fr.get(in, phi.Edges[i]))
				break
			}
		}
	}
	if fr.phiDone {
		fr.phiDone = false
	} else {
		for i := 0; i < nphi; i++ {
			fr.set(in, b.Instrs[i].(*ssa.Phi), phiVals[i])
		}
	}
	for _, instr := range b.Instrs[nphi:] {
		if fr.lib && !fr.fmtCode {
			// (strconv and its helpers terminate; their per-byte work on long
			// strings is not charged to the library's budget)
			in.steps++
			if in.steps > in.stepBudget {
				w, _ := in.libWhere()
				_ = w
				panic(pathEnd{"budget", "steps@" + in.entryWhere() + "|" + fmt.Sprintf("step budget %d exceeded", in.stepBudget)})
			}
		}
		if traceOn {
			fmt.Fprintf(os.Stderr, "  [%s] %s\n", fr.fn.Name(), instr)
		}
		switch instr := instr.(type) {
		case *ssa.Return:
			for i := len(fr.defers) - 1; i >= 0; i-- {
				fr.defers[i]()
			}
			fr.defers = nil
			switch len(instr.Results) {
			case 0:
				return nil, true
			case 1:
				return fr.get(in, instr.Results[0]), true
			}
			res := make(Tuple, len(instr.Results))
			for i, r := range instr.Results {
				res[i] = fr.get(in, r)
			}
			return res, true
		case *ssa.Jump:
			fr.prev, fr.block = b, b.Succs[0]
			return nil, false
		case *ssa.If:
			c := fr.get(in, instr.Cond).(Sc)
			taken := false
			if c.T == nil {
				taken = c.C == 1
			} else {
				if !in.noIfConv {
					if j, ret, ok := in.ifConvert(fr, b, c.T); ok {
						if ret {
							for i := len(fr.defers) - 1; i >= 0; i-- {
								fr.defers[i]()
							}
							fr.defers = nil
							return fr.ifRet, true
						}
						fr.prev, fr.block = b, j
						return nil, false
					}
				}
				if fr.fmtCode {
					// inside strconv: how a number is laid out in digits is
					// not the subject of any check: one alternative is kept
					// (counted as a narrowed decision).
					in.ex.NarrowOnce = true
					in.fmtForks++
				}
				d0 := in.ex.St.Decisions
				taken = in.ex.Branch(c.T)
				in.ex.NarrowOnce = false
				if in.ex.St.Decisions > d0 {
					in.funcsRun["fork@"+in.w.short(fr.fn)]++
				}
			}
			if taken {
				fr.prev, fr.block = b, b.Succs[0]
			} else {
				fr.prev, fr.block = b, b.Succs[1]
			}
			return nil, false
		case *ssa.Panic:
			x := fr.get(in, instr.X)
			msg := ""
			if ifc, ok := x.(Iface); ok {
				if s, ok := ifc.V.(Str); ok {
					msg, _ = s.Conc()
				}
			}
			in.libPanic("explicit-panic", msg)
		default:
			in.visit(fr, instr)
		}
	}
	panic("block fell through")
}

func (in *Interp) lookupMethod(t types.Type, pkg *types.Package, name string) *ssa.Function {
	return in.w.prog.LookupMethod(t, pkg, name)
}

func (in *Interp) prepareCall(fr *Frame, c *ssa.CallCommon) (Val, []Val, bool) {
	v := fr.get(in, c.Value)
	var args []Val
	var fn Val
	if c.Method == nil {
		fn = v
	} else {
		recv := v.(Iface)
		if recv.T == nil {
			in.libPanic("nil-deref", "method call on nil interface")
		}
		if ev, ok := recv.V.(*ErrV); ok {
			switch c.Method.Name() {
			case "Error":
				return ev.Msg, nil, true
			case "Unwrap":
				if ev.Wrapped == nil {
					return Iface{}, nil, true
				}
				return ev.Wrapped, nil, true
			}
			in.inconclusive("method " + c.Method.Name() + " on engine error")
		}
		m := in.lookupMethod(recv.T, c.Method.Pkg(), c.Method.Name())
		if m == nil {
			panic(fmt.Sprintf("no method %s on %s", c.Method.Name(), recv.T))
		}
		fn = m
		args = append(args, recv.V)
	}
	for _, a := range c.Args {
		args = append(args, fr.get(in, a))
	}
	return fn, args, false
}

func (in *Interp) visit(fr *Frame, instr ssa.Instruction) {
	switch instr := instr.(type) {
	case *ssa.DebugRef:
	case *ssa.UnOp:
		fr.set(in, instr, in.unop(instr, fr.get(in, instr.X)))
	case *ssa.BinOp:
		fr.set(in, instr, in.binop(instr.Op, instr.X.Type(), fr.get(in, instr.X), fr.get(in, instr.Y)))
	case *ssa.Call:
		fn, args, direct := in.prepareCall(fr, &instr.Call)
		if direct {
			fr.set(in, instr, fn)
			return
		}
		fr.set(in, instr, in.call(fn, args))
	case *ssa.Defer:
		fn, args, direct := in.prepareCall(fr, &instr.Call)
		if !direct {
			fr.defers = append(fr.defers, func() { in.call(fn, args) })
		}
	case *ssa.RunDefers:
		for i := len(fr.defers) - 1; i >= 0; i-- {
			fr.defers[i]()
		}
		fr.defers = nil
	case *ssa.ChangeInterface:
		fr.set(in, instr, fr.get(in, instr.X))
	case *ssa.ChangeType:
		fr.set(in, instr, fr.get(in, instr.X))
	case *ssa.Convert:
		fr.set(in, instr, in.conv(instr.Type(), instr.X.Type(), fr.get(in, instr.X)))
	case *ssa.MakeInterface:
		fr.set(in, instr, Iface{T: instr.X.Type(), V: copyVal(fr.get(in, instr.X))})
	case *ssa.Extract:
		fr.set(in, instr, fr.get(in, instr.Tuple).(Tuple)[instr.Index])
	case *ssa.Slice:
		fr.set(in, instr, in.sliceOp(instr, fr.get(in, instr.X), fr.get(in, instr.Low), fr.get(in, instr.High), fr.get(in, instr.Max)))
	case *ssa.Store:
		p := in.asPtr(fr.get(in, instr.Addr))
		if p.Slot == nil {
			in.libPanic("nil-deref", "store")
		}
		in.noteWriteAt(p.Obj, p.Slot)
		store(p.Slot, fr.get(in, instr.Val))
	case *ssa.Alloc:
		et := instr.Type().(*types.Pointer).Elem()
		o := in.newObj(1, in.w.short(fr.fn))
		o.Cells[0] = in.zero(et)
		if instr.Heap {
			in.noteAlloc(in.sizeof(et))
		}
		fr.set(in, instr, Ptr{&o.Cells[0], o})
	case *ssa.MakeSlice:
		et := instr.Type().Underlying().(*types.Slice).Elem()
		n := in.concIndex(in.to64(fr.get(in, instr.Len), instr.Len.Type()), 1<<40, "makeslice")
		c := in.concIndex(in.to64(fr.get(in, instr.Cap), instr.Cap.Type()), 1<<40, "makeslice")
		if c < n {
			in.libPanic("makeslice-cap", "")
		}
		in.noteAlloc(c * in.sizeof(et))
		if c > 1<<26 {
			in.inconclusive(fmt.Sprintf("make of %d elements is beyond the engine's memory model", c))
		}
		o := in.newObj(c, in.w.short(fr.fn))
		z := in.zero(et)
		for i := range o.Cells {
			o.Cells[i] = copyVal(z)
		}
		fr.set(in, instr, Slice{o, 0, n, c})
	case *ssa.MakeMap:
		in.noteAlloc(48)
		fr.set(in, instr, &Map{Obj: in.newObj(0, in.w.short(fr.fn))})
	case *ssa.MapUpdate:
		m := fr.get(in, instr.Map).(*Map)
		if m == nil {
			in.libPanic("nil-map-write", "")
		}
		in.noteWrite(m.Obj)
		k := fr.get(in, instr.Key)
		for i, ek := range m.Keys {
			if in.concKeyEq(ek, k) {
				m.Vals[i] = fr.get(in, instr.Value)
				return
			}
		}
		in.noteAlloc(32)
		m.Keys = append(m.Keys, k)
		m.Vals = append(m.Vals, fr.get(in, instr.Value))
	case *ssa.Lookup:
		fr.set(in, instr, in.lookup(instr, fr.get(in, instr.X), fr.get(in, instr.Index)))
	case *ssa.Range:
		switch x := fr.get(in, instr.X).(type) {
		case *Map:
			it := &MapIter{m: x}
			if x != nil {
				it.order = in.mapOrder(len(x.Keys))
				if len(x.Keys) > 1 && in.inLib() {
					// natively the order is random: the path cannot be
					// compared observation by observation
					in.orderDev = true
				}
			}
			fr.set(in, instr, it)
		default:
			panic(pathEnd{"inconclusive", "range over " + fmt.Sprintf("%T", x)})
		}
	case *ssa.Next:
		it := fr.get(in, instr.Iter).(*MapIter)
		if it.pos >= len(it.order) {
			fr.set(in, instr, Tuple{concBool(false), nil, nil})
		} else {
			i := it.order[it.pos]
			it.pos++
			fr.set(in, instr, Tuple{concBool(true), it.m.Keys[i], copyVal(it.m.Vals[i])})
		}
	case *ssa.FieldAddr:
		p := in.asPtr(fr.get(in, instr.X))
		if p.Slot == nil {
			in.libPanic("nil-deref", "field "+instr.String())
		}
		st := (*p.Slot).(Struct)
		fr.set(in, instr, Ptr{&st[instr.Field], p.Obj})
	case *ssa.Field:
		fr.set(in, instr, copyVal(fr.get(in, instr.X).(Struct)[instr.Field]))
	case *ssa.IndexAddr:
		x := fr.get(in, instr.X)
		idx := in.to64(fr.get(in, instr.Index), instr.Index.Type())
		if sr, ok := x.(SymRef); ok {
			x = in.asPtr(sr)
		}
		switch x := x.(type) {
		case Slice:
			if idx.T != nil && x.Obj != nil && symTable(x.Obj.Cells, x.Off, x.Len) {
				in.checkIndex(idx, x.Len)
				fr.set(in, instr, SymRef{cells: x.Obj.Cells, off: x.Off, n: x.Len, idx: idx.T, obj: x.Obj})
				return
			}
			i := in.concIndex(idx, x.Len, "index")
			fr.set(in, instr, Ptr{&x.Obj.Cells[x.Off+i], x.Obj})
		case Ptr:
			if x.Slot == nil {
				in.libPanic("nil-deref", "index")
			}
			arr := (*x.Slot).(Array)
			if idx.T != nil && symTable(arr, 0, len(arr)) {
				in.checkIndex(idx, len(arr))
				fr.set(in, instr, SymRef{cells: arr, off: 0, n: len(arr), idx: idx.T, obj: x.Obj})
				return
			}
			i := in.concIndex(idx, len(arr), "index")
			fr.set(in, instr, Ptr{&arr[i], x.Obj})
		default:
			panic(fmt.Sprintf("IndexAddr on %T", x))
		}
	case *ssa.Index:
		switch x := fr.get(in, instr.X).(type) {
		case Array:
			idx := in.to64(fr.get(in, instr.Index), instr.Index.Type())
			if idx.T != nil && symTable(x, 0, len(x)) {
				in.checkIndex(idx, len(x))
				fr.set(in, instr, in.loadSymRef(SymRef{cells: x, n: len(x), idx: idx.T}))
				return
			}
			i := in.concIndex(idx, len(x), "index")
			fr.set(in, instr, copyVal(x[i]))
		case Str:
			x = in.flat(x)
			fr.set(in, instr, in.strIndex(x, in.to64(fr.get(in, instr.Index), instr.Index.Type())))
		default:
			panic(fmt.Sprintf("Index on %T", x))
		}
	case *ssa.TypeAssert:
		fr.set(in, instr, in.typeAssert(instr, fr.get(in, instr.X).(Iface)))
	case *ssa.MakeClosure:
		var env []Val
		for _, b := range instr.Bindings {
			env = append(env, fr.get(in, b))
		}
		in.noteAlloc(16 + 8*len(env))
		fr.set(in, instr, &Closure{instr.Fn.(*ssa.Function), env})
	default:
		panic(pathEnd{"inconclusive", fmt.Sprintf("unsupported instruction %T in %s", instr, fr.fn)})
	}
}

// mapOrder returns the iteration order of a map with n entries. In the
// default mode it is insertion order; in the order-exploring modes it is a
// decision, chosen independently for every Range execution as the Go runtime
// does.
func (in *Interp) mapOrder(n int) []int {
	order := make([]int, n)
	for i := range order {
		order[i] = i
	}
	if n <= 1 {
		return order
	}
	rev := func() {
		for i, j := 0, n-1; i < j; i, j = i+1, j-1 {
			order[i], order[j] = order[j], order[i]
		}
	}
	in.rangeCount++
	switch {
	case in.orderMode == "rev":
		in.orderDev = true
		rev()
	case in.orderMode == "alt":
		// every other Range execution is reversed: consecutive passes over
		// the same map (length pass, write pass) see different orders
		if in.rangeCount%2 == 0 {
			in.orderDev = true
			rev()
		}
	case strings.HasPrefix(in.orderMode, "rot"):
		k := int(in.orderMode[3]-'0') % n
		if k != 0 {
			in.orderDev = true
			order = append(append([]int{}, order[k:]...), order[:k]...)
		}
	case in.orderMode == "fwdrev":
		if in.ex.ChooseFree("order", 2) == 1 {
			in.orderDev = true
			rev()
		}
	case in.orderMode == "all":
		rest := order
		var out []int
		for len(rest) > 1 {
			c := in.ex.ChooseFree("order", len(rest))
			if c != 0 {
				in.orderDev = true
			}
			out = append(out, rest[c])
			rest = append(append([]int{}, rest[:c]...), rest[c+1:]...)
		}
		order = append(out, rest...)
	}
	return order
}

func (in *Interp) concKeyEq(a, b Val) bool {
	switch a := a.(type) {
	case Sc:
		bb := b.(Sc)
		if a.T != nil || bb.T != nil {
			panic(pathEnd{"inconclusive", "symbolic map key in update"})
		}
		return a.C == bb.C
	case Str:
		x, ok1 := a.Conc()
		y, ok2 := b.(Str).Conc()
		if !ok1 || !ok2 {
			panic(pathEnd{"inconclusive", "symbolic string map key"})
		}
		return x == y
	}
	panic(pathEnd{"inconclusive", fmt.Sprintf("map key type %T", a)})
}

// to64 widens an index / length operand to 64 bits according to the
// signedness of its Go type.
func (in *Interp) to64(v Val, t types.Type) Sc {
	s := v.(Sc)
	if s.W == 64 {
		return s
	}
	_, signed, _ := intWidth(t)
	if s.T == nil {
		if signed {
			return concInt(64, uint64(sext(s.C, int(s.W))))
		}
		return concInt(64, s.C)
	}
	if signed {
		return in.fromTerm(in.tt.SExt(s.T, 64))
	}
	return in.fromTerm(in.tt.ZExt(s.T, 64))
}

// SymRef is the address of an element of a table of concrete scalars at a
// symbolic (already bounds-checked) index. Loading through it yields an
// ite-chain over the elements instead of one path per index.
type SymRef struct {
	cells []Val
	off   int
	n     int
	idx   *Term // 64 bit
	obj   *Obj
}

// asPtr turns any address value into an ordinary pointer (a SymRef is
// concretised by forking over the index values).
func (in *Interp) asPtr(v Val) Ptr {
	switch p := v.(type) {
	case Ptr:
		return p
	case SymRef:
		i := int(in.ex.Concretize(p.idx))
		return Ptr{&p.cells[p.off+i], p.obj}
	}
	panic(fmt.Sprintf("asPtr of %T", v))
}

// symTable reports whether cells[off:off+n] are all concrete scalars of one width.
func symTable(cells []Val, off, n int) bool {
	if n < 2 || n > 256 {
		return false
	}
	w := -1
	for i := 0; i < n; i++ {
		s, ok := cells[off+i].(Sc)
		if !ok || s.T != nil {
			return false
		}
		if w >= 0 && int(s.W) != w {
			return false
		}
		w = int(s.W)
	}
	return true
}

func (in *Interp) loadSymRef(p SymRef) Val {
	t := in.term(p.cells[p.off+p.n-1].(Sc))
	for i := p.n - 2; i >= 0; i-- {
		t = in.tt.Ite(in.tt.Eq(p.idx, in.tt.Const(64, uint64(i))), in.term(p.cells[p.off+i].(Sc)), t)
	}
	return in.fromTerm(t)
}

// strIndex: s[idx] with the bounds check of the compiled code. A symbolic
// index into a short string (digit tables, flag letters) gives the byte as an
// if-then-else chain instead of one path per value.
func (in *Interp) strIndex(x Str, idx Sc) Val {
	if idx.T != nil && len(x.B) >= 2 && len(x.B) <= 256 {
		in.checkIndex(idx, len(x.B))
		return in.byteAt(x.B, idx.T)
	}
	i := in.concIndex(idx, len(x.B), "index")
	return x.B[i]
}

// byteAt: b[idx] for idx known to be in range.
func (in *Interp) byteAt(b []Sc, idx *Term) Sc {
	t := in.term(b[len(b)-1])
	for i := len(b) - 2; i >= 0; i-- {
		t = in.tt.Ite(in.tt.Eq(idx, in.tt.Const(64, uint64(i))), in.term(b[i]), t)
	}
	return in.fromTerm(t)
}

// checkIndex forks on the bounds check of a symbolic index (as concIndex
// does) without concretising it.
func (in *Interp) checkIndex(idx Sc, n int) {
	inRange := in.tt.Cmp(OUlt, idx.T, in.tt.Const(64, uint64(n)))
	if !in.ex.Branch(inRange) {
		in.libPanic("index-out-of-range", "symbolic index")
	}
}

// concIndex bounds-checks idx against [0,n) (for make: [0,n]) exactly as the
// compiled code would, forking into a panic path if the check can fail, and
// concretises the in-range value.
func (in *Interp) concIndex(idx Sc, n int, what string) int {
	if idx.T == nil {
		v := int64(sext(idx.C, int(idx.W)))
		if what == "makeslice" {
			if v < 0 || v > int64(n) {
				in.libPanic("makeslice-len", fmt.Sprint(v))
			}
			return int(v)
		}
		if v < 0 || v >= int64(n) {
			in.libPanic("index-out-of-range", fmt.Sprintf("[%d] with length %d", v, n))
		}
		return int(v)
	}
	t := idx.T
	if t.W < 64 {
		panic("concIndex: operand not widened")
	}
	var inRange *Term
	if what == "makeslice" {
		inRange = in.tt.Cmp(OUle, t, in.tt.Const(64, uint64(n)))
	} else {
		inRange = in.tt.Cmp(OUlt, t, in.tt.Const(64, uint64(n)))
	}
	if !in.ex.Branch(inRange) {
		if what == "makeslice" {
			in.libPanic("makeslice-len", "symbolic")
		}
		in.libPanic("index-out-of-range", "symbolic "+what)
	}
	return int(in.ex.Concretize(t))
}

func (in *Interp) lookup(instr *ssa.Lookup, x, idx Val) Val {
	switch x := x.(type) {
	case *Map:
		vt := instr.X.Type().Underlying().(*types.Map).Elem()
		found := -1
		if x != nil {
			k := idx
			if ks, ok := k.(Sc); ok && ks.T != nil {
				// symbolic key: fork over the present keys + absent
				alts := make([]*Term, 0, len(x.Keys)+1)
				none := in.tt.Bool(true)
				for _, ek := range x.Keys {
					e := in.tt.Eq(ks.T, in.term(ek.(Sc)))
					alts = append(alts, e)
					none = in.tt.And(none, in.tt.Not(e))
				}
				alts = append(alts, none)
				c := in.ex.choose("mapkey", alts, "")
				if c < len(x.Keys) {
					found = c
				}
			} else {
				for i, ek := range x.Keys {
					if in.concKeyEq(ek, k) {
						found = i
						break
					}
				}
			}
		}
		var v Val
		if found >= 0 {
			v = copyVal(x.Vals[found])
		} else {
			v = in.zero(vt)
		}
		if instr.CommaOk {
			return Tuple{v, concBool(found >= 0)}
		}
		return v
	case Str:
		x = in.flat(x)
		i64 := in.to64(idx, instr.Index.Type())
		return in.strIndex(x, i64)
	}
	panic(fmt.Sprintf("lookup on %T", x))
}

func (in *Interp) typeAssert(instr *ssa.TypeAssert, x Iface) Val {
	ok := false
	if x.T != nil {
		if it, isI := instr.AssertedType.Underlying().(*types.Interface); isI {
			ok = types.Implements(x.T, it)
			if _, isErrV := x.V.(*ErrV); isErrV {
				ok = it.NumMethods() == 0 || (it.NumMethods() == 1 && it.Method(0).Name() == "Error")
			}
		} else {
			ok = types.Identical(x.T, instr.AssertedType)
			if _, isErrV := x.V.(*ErrV); isErrV {
				ok = false
			}
		}
	}
	var v Val
	if ok {
		if _, isI := instr.AssertedType.Underlying().(*types.Interface); isI {
			v = x
		} else {
			v = copyVal(x.V)
		}
	} else {
		v = in.zero(instr.AssertedType)
	}
	if instr.CommaOk {
		return Tuple{v, concBool(ok)}
	}
	if !ok {
		in.libPanic("type-assertion", instr.String())
	}
	return v
}

func (in *Interp) sliceOp(instr *ssa.Slice, x, lo, hi, max Val) Val {
	var obj *Obj
	var off, ln, cp int
	isStr := false
	var str Str
	switch x := x.(type) {
	case Slice:
		obj, off, ln, cp = x.Obj, x.Off, x.Len, x.Cap
	case Str:
		isStr, str = true, in.flat(x)
		ln, cp = len(str.B), len(str.B)
	case SymRef:
		return in.sliceOp(instr, in.asPtr(x), lo, hi, max)
	case Ptr:
		if x.Slot == nil {
			in.libPanic("nil-deref", "slice of nil array pointer")
		}
		arr := (*x.Slot).(Array)
		// arrays are stored inline in the slot; expose them as an object
		o := &Obj{ID: x.Obj.ID, Cells: arr, Site: x.Obj.Site, Global: x.Obj.Global, Released: x.Obj.Released, PoolOwned: x.Obj.PoolOwned}
		obj, off, ln, cp = o, 0, len(arr), len(arr)
	default:
		panic(fmt.Sprintf("slice of %T", x))
	}
	bound := cp
	if isStr {
		bound = ln
	}
	// symbolic bounds: the compiled code checks 0 <= lo <= hi <= max <= cap
	// with unsigned comparisons; fork on each check, then concretise.
	sym := func(v Val, sv ssa.Value) *Term {
		if v == nil {
			return nil
		}
		return in.term(in.to64(v, sv.Type()))
	}
	tl, th, tm := sym(lo, instr.Low), sym(hi, instr.High), sym(max, instr.Max)
	cst := func(v int) *Term { return in.tt.Const(64, uint64(v)) }
	if tm == nil {
		tm = cst(cp)
		if isStr {
			tm = cst(ln)
		}
	}
	if th == nil {
		th = cst(ln)
	}
	if tl == nil {
		tl = cst(0)
	}
	// order of checks as in the runtime: max <= cap, hi <= max, lo <= hi
	chk := func(c *Term, what string) {
		if c.IsTrue() {
			return
		}
		if c.IsFalse() || !in.ex.Branch(c) {
			in.libPanic("slice-bounds", what)
		}
	}
	chk(in.tt.Cmp(OUle, tm, cst(bound)), "max out of range")
	chk(in.tt.Cmp(OUle, th, tm), "high out of range")
	chk(in.tt.Cmp(OUle, tl, th), "low > high")
	if isStr && (!th.IsConst() || !tl.IsConst()) {
		if cs, ok := str.Conc(); ok && len(cs) > 0 {
			// a constant string sliced at symbolic (checked) bounds: keep it
			// as one opaque piece instead of one path per pair of bounds
			return Str{R: []Piece{{Op: &Opaque{Verb: "%s", Kind: "substr", Aux: cs, Args: []Sc{in.fromTerm(tl), in.fromTerm(th)}}}}}
		}
	}
	m := int(in.ex.Concretize(tm))
	h := int(in.ex.Concretize(th))
	l := int(in.ex.Concretize(tl))
	if isStr {
		return Str{B: str.B[l:h]}
	}
	if obj == nil {
		return Slice{}
	}
	return Slice{obj, off + l, h - l, m - l}
}

// ---------------------------------------------------------------- operators

var binOps = map[token.Token][2]Op{ // [unsigned, signed]
	token.ADD: {OAdd, OAdd}, token.SUB: {OSub, OSub}, token.MUL: {OMul, OMul},
	token.QUO: {OUDiv, OSDiv}, token.REM: {OURem, OSRem},
	token.AND: {OBvAnd, OBvAnd}, token.OR: {OBvOr, OBvOr}, token.XOR: {OBvXor, OBvXor},
	token.SHL: {OShl, OShl}, token.SHR: {OLshr, OAshr},
}

func (in *Interp) binop(op token.Token, t types.Type, x, y Val) Val {
	switch xv := x.(type) {
	case Sc:
		yv := y.(Sc)
		w, signed, _ := intWidth(t)
		if w == 0 && xv.W != 0 {
			w = int(xv.W)
		}
		if xv.T == nil && yv.T == nil {
			if r, ok := concBinop(op, w, signed, xv, yv); ok {
				return r
			}
		}
		switch op {
		case token.EQL, token.NEQ:
			r := in.tt.Eq(in.term(xv), in.term(yv))
			if op == token.NEQ {
				r = in.tt.Not(r)
			}
			return in.fromTerm(r)
		case token.LSS, token.LEQ, token.GTR, token.GEQ:
			a, b := in.term(xv), in.term(yv)
			if op == token.GTR || op == token.GEQ {
				a, b = b, a
			}
			var o Op
			strict := op == token.LSS || op == token.GTR
			switch {
			case strict && signed:
				o = OSlt
			case strict:
				o = OUlt
			case signed:
				o = OSle
			default:
				o = OUle
			}
			return in.fromTerm(in.tt.Cmp(o, a, b))
		case token.LAND:
			return in.fromTerm(in.tt.And(in.term(xv), in.term(yv)))
		case token.LOR:
			return in.fromTerm(in.tt.Or(in.term(xv), in.term(yv)))
		case token.AND_NOT:
			return in.fromTerm(in.tt.Bin(OBvAnd, in.term(xv), in.tt.Un(OBvNot, in.term(yv))))
		case token.SHL, token.SHR:
			a := in.term(xv)
			b := in.term(yv)
			if b.W > w {
				if b.IsConst() {
					if b.C >= uint64(w) {
						b = in.tt.Const(w, uint64(w))
					} else {
						b = in.tt.Const(w, b.C)
					}
				} else {
					big := in.tt.Cmp(OUle, in.tt.Const(b.W, uint64(w)), b)
					b = in.tt.Ite(big, in.tt.Const(w, uint64(w)), in.tt.Extract(w-1, 0, b))
				}
			} else if b.W < w {
				b = in.tt.ZExt(b, w)
			}
			o := binOps[op][0]
			if signed {
				o = binOps[op][1]
			}
			return in.fromTerm(in.tt.Bin(o, a, b))
		case token.QUO, token.REM:
			if yv.T == nil {
				if yv.C == 0 {
					in.libPanic("divide-by-zero", "")
				}
			} else if in.ex.Branch(in.tt.Eq(yv.T, in.tt.Const(w, 0))) {
				in.libPanic("divide-by-zero", "")
			}
			fallthrough
		default:
			ops, ok := binOps[op]
			if !ok {
				panic("binop " + op.String())
			}
			o := ops[0]
			if signed {
				o = ops[1]
			}
			return in.fromTerm(in.tt.Bin(o, in.term(xv), in.term(yv)))
		}
	case Str:
		yv := y.(Str)
		switch op {
		case token.ADD:
			return ropeConcat(xv, yv)
		case token.EQL, token.NEQ:
			r := in.equal(x, y)
			if op == token.NEQ {
				r = in.tt.Not(r)
			}
			return in.fromTerm(r)
		default:
			xa, ya := in.flat(xv).B, in.flat(yv).B
			switch op {
			case token.LSS:
				return in.fromTerm(in.strLess(xa, ya))
			case token.LEQ:
				return in.fromTerm(in.tt.Not(in.strLess(ya, xa)))
			case token.GTR:
				return in.fromTerm(in.strLess(ya, xa))
			case token.GEQ:
				return in.fromTerm(in.tt.Not(in.strLess(xa, ya)))
			}
		}
	}
	switch op {
	case token.EQL:
		return in.fromTerm(in.equal(x, y))
	case token.NEQ:
		return in.fromTerm(in.tt.Not(in.equal(x, y)))
	}
	panic(fmt.Sprintf("binop %s on %T", op, x))
}

// concBinop computes a binary operation on concrete scalars without going
// through the term table.
func concBinop(op token.Token, w int, signed bool, x, y Sc) (Sc, bool) {
	a, b := x.C, y.C
	cmp := func(r bool) (Sc, bool) { return concBool(r), true }
	sa, sb := sext(a, max(w, 1)), sext(b, max(w, 1))
	switch op {
	case token.EQL:
		return cmp(a == b)
	case token.NEQ:
		return cmp(a != b)
	case token.LSS:
		if signed {
			return cmp(sa < sb)
		}
		return cmp(a < b)
	case token.LEQ:
		if signed {
			return cmp(sa <= sb)
		}
		return cmp(a <= b)
	case token.GTR:
		if signed {
			return cmp(sa > sb)
		}
		return cmp(a > b)
	case token.GEQ:
		if signed {
			return cmp(sa >= sb)
		}
		return cmp(a >= b)
	case token.ADD:
		return concInt(w, a+b), true
	case token.SUB:
		return concInt(w, a-b), true
	case token.MUL:
		return concInt(w, a*b), true
	case token.AND:
		if w == 0 {
			return concBool(a&b == 1), true
		}
		return concInt(w, a&b), true
	case token.OR:
		if w == 0 {
			return concBool(a|b == 1), true
		}
		return concInt(w, a|b), true
	case token.XOR:
		return concInt(w, a^b), true
	case token.AND_NOT:
		return concInt(w, a&^b), true
	}
	return Sc{}, false
}

// strLess is the lexicographic order of two byte strings of concrete length
// with possibly symbolic contents.
func (in *Interp) strLess(a, b []Sc) *Term {
	n := min(len(a), len(b))
	res := in.tt.Bool(len(a) < len(b))
	for k := n - 1; k >= 0; k-- {
		x, y := in.term(a[k]), in.term(b[k])
		res = in.tt.Or(in.tt.Cmp(OUlt, x, y), in.tt.And(in.tt.Eq(x, y), res))
	}
	return res
}

func isNilVal(v Val) bool {
	switch v := v.(type) {
	case nil:
		return true
	case Ptr:
		return v.Slot == nil
	case Slice:
		return v.Obj == nil
	case *Map:
		return v == nil
	case Iface:
		return v.T == nil
	case *ssa.Function:
		return v == nil
	case *Closure:
		return v == nil
	}
	return false
}

func (in *Interp) equal(x, y Val) *Term {
	switch xv := x.(type) {
	case Sc:
		return in.tt.Eq(in.term(xv), in.term(y.(Sc)))
	case Str:
		yv := y.(Str)
		if xv.R != nil || yv.R != nil {
			// a rope holds at least one non-empty opaque piece
			if (xv.R == nil && len(xv.B) == 0) || (yv.R == nil && len(yv.B) == 0) {
				return in.tt.Bool(false)
			}
			if eq, ok := in.ropeEqual(xv, yv); ok {
				return eq
			}
			panic(pathEnd{"inconclusive", "comparison of formatted strings of unknown length"})
		}
		if len(xv.B) != len(yv.B) {
			return in.tt.Bool(false)
		}
		r := in.tt.Bool(true)
		for i := range xv.B {
			r = in.tt.And(r, in.tt.Eq(in.term(xv.B[i]), in.term(yv.B[i])))
		}
		return r
	case Ptr:
		return in.tt.Bool(xv.Slot == y.(Ptr).Slot)
	case Iface:
		yv := y.(Iface)
		if xv.T == nil || yv.T == nil {
			return in.tt.Bool(xv.T == nil && yv.T == nil)
		}
		a, aok := xv.V.(*ErrV)
		b, bok := yv.V.(*ErrV)
		if aok || bok {
			return in.tt.Bool(aok && bok && a == b)
		}
		if !types.Identical(xv.T, yv.T) {
			return in.tt.Bool(false)
		}
		return in.equal(xv.V, yv.V)
	case Struct:
		yv := y.(Struct)
		r := in.tt.Bool(true)
		for i := range xv {
			r = in.tt.And(r, in.equal(xv[i], yv[i]))
		}
		return r
	case Array:
		yv := y.(Array)
		r := in.tt.Bool(true)
		for i := range xv {
			r = in.tt.And(r, in.equal(xv[i], yv[i]))
		}
		return r
	default:
		// slices, maps, funcs: only comparison with nil is legal
		if isNilVal(y) {
			return in.tt.Bool(isNilVal(x))
		}
		if isNilVal(x) {
			return in.tt.Bool(isNilVal(y))
		}
	}
	panic(fmt.Sprintf("equal on %T / %T", x, y))
}

func (in *Interp) unop(instr *ssa.UnOp, x Val) Val {
	switch instr.Op {
	case token.MUL:
		if sr, ok := x.(SymRef); ok {
			return in.loadSymRef(sr)
		}
		p := x.(Ptr)
		if p.Slot == nil {
			in.libPanic("nil-deref", "load")
		}
		in.noteRead(p.Obj, p.Slot)
		return copyVal(*p.Slot)
	case token.NOT:
		return in.fromTerm(in.tt.Not(in.term(x.(Sc))))
	case token.SUB:
		return in.fromTerm(in.tt.Un(OBvNeg, in.term(x.(Sc))))
	case token.XOR:
		return in.fromTerm(in.tt.Un(OBvNot, in.term(x.(Sc))))
	}
	panic(pathEnd{"inconclusive", "unop " + instr.Op.String()})
}

func (in *Interp) conv(dst, src types.Type, x Val) Val {
	if dw, _, ok := intWidth(dst); ok {
		if _, ssigned, ok2 := intWidth(src); ok2 {
			s := x.(Sc)
			t := in.term(s)
			if dw > t.W {
				if ssigned {
					t = in.tt.SExt(t, dw)
				} else {
					t = in.tt.ZExt(t, dw)
				}
			} else if dw < t.W {
				t = in.tt.Extract(dw-1, 0, t)
			}
			return in.fromTerm(t)
		}
	}
	if isString(dst) {
		switch xv := x.(type) {
		case Slice: // []byte -> string
			if xv.Len > 0 {
				in.noteAccess(xv.Obj)
			}
			b := make([]Sc, xv.Len)
			for i := 0; i < xv.Len; i++ {
				b[i] = xv.Obj.Cells[xv.Off+i].(Sc)
			}
			in.noteAlloc(xv.Len)
			return Str{B: b}
		case Str:
			return xv
		case Sc: // string(rune)
			if xv.T == nil {
				return strOf(string(rune(xv.C)))
			}
		}
	}
	if sl, ok := dst.Underlying().(*types.Slice); ok {
		if s, isS := x.(Str); isS {
			if b, okb := sl.Elem().Underlying().(*types.Basic); okb && b.Kind() == types.Uint8 {
				s = in.flat(s)
				in.noteAlloc(len(s.B))
				cp := roundupsize(len(s.B))
				o := in.newObj(cp, "conv")
				for i, c := range s.B {
					o.Cells[i] = c
				}
				for i := len(s.B); i < cp; i++ {
					o.Cells[i] = Sc{W: 8}
				}
				if len(s.B) == 0 {
					// []byte("") is a non-nil empty slice
					return Slice{o, 0, 0, 0}
				}
				return Slice{o, 0, len(s.B), cp}
			}
		}
	}
	panic(pathEnd{"inconclusive", fmt.Sprintf("conversion %s <- %s", dst, src)})
}

// ---------------------------------------------------------------- builtins

func (in *Interp) builtin(b *ssa.Builtin, args []Val) Val {
	switch b.Name() {
	case "len":
		switch x := args[0].(type) {
		case Slice:
			return concInt(64, uint64(x.Len))
		case Str:
			x = in.flat(x)
			return concInt(64, uint64(len(x.B)))
		case *Map:
			if x == nil {
				return concInt(64, 0)
			}
			return concInt(64, uint64(len(x.Keys)))
		case Array:
			return concInt(64, uint64(len(x)))
		case Ptr:
			return concInt(64, uint64(len((*x.Slot).(Array))))
		}
	case "cap":
		switch x := args[0].(type) {
		case Slice:
			return concInt(64, uint64(x.Cap))
		case Array:
			return concInt(64, uint64(len(x)))
		}
	case "copy":
		dst := args[0].(Slice)
		n := 0
		switch src := args[1].(type) {
		case Slice:
			n = min(dst.Len, src.Len)
			if n > 0 {
				in.noteAccess(src.Obj)
				in.noteWrite(dst.Obj)
				tmp := make([]Val, n)
				copy(tmp, src.Obj.Cells[src.Off:src.Off+n])
				for i := 0; i < n; i++ {
					dst.Obj.Cells[dst.Off+i] = copyVal(tmp[i])
				}
			}
		case Str:
			src = in.flat(src)
			n = min(dst.Len, len(src.B))
			if n > 0 {
				in.noteWrite(dst.Obj)
			}
			for i := 0; i < n; i++ {
				dst.Obj.Cells[dst.Off+i] = src.B[i]
			}
		}
		return concInt(64, uint64(n))
	case "append":
		s := args[0].(Slice)
		var add []Val
		switch t := args[1].(type) {
		case Slice:
			if t.Len > 0 {
				in.noteAccess(t.Obj)
			}
			for i := 0; i < t.Len; i++ {
				add = append(add, copyVal(t.Obj.Cells[t.Off+i]))
			}
		case Str:
			t = in.flat(t)
			for _, c := range t.B {
				add = append(add, c)
			}
		}
		if len(add) == 0 {
			return s
		}
		need := s.Len + len(add)
		if s.Obj != nil && need <= s.Cap {
			in.noteWrite(s.Obj)
			for i, v := range add {
				s.Obj.Cells[s.Off+s.Len+i] = v
			}
			s.Len = need
			return s
		}
		es := valSize(add[0])
		if sig, ok := b.Type().(*types.Signature); ok && sig.Params().Len() > 0 {
			if st, ok := sig.Params().At(0).Type().Underlying().(*types.Slice); ok {
				if n := in.sizeof(st.Elem()); n > 0 {
					es = n
				}
			}
		}
		nc := max(need, growCap(s.Cap, need, es))
		in.noteAlloc(nc * valSize(add[0]))
		o := in.newObj(nc, "append")
		for i := 0; i < s.Len; i++ {
			o.Cells[i] = s.Obj.Cells[s.Off+i]
		}
		for i, v := range add {
			o.Cells[s.Len+i] = v
		}
		for i := need; i < nc; i++ {
			o.Cells[i] = zeroLike(add[0])
		}
		return Slice{o, 0, need, nc}
	case "print", "println":
		return nil
	case "min", "max":
		ta, tb := in.term(args[0].(Sc)), in.term(args[1].(Sc))
		if ta.IsConst() && tb.IsConst() {
			x, y := sext(ta.C, ta.W), sext(tb.C, tb.W)
			if (x < y) == (b.Name() == "min") {
				return args[0]
			}
			return args[1]
		}
	case "recover":
		return Iface{}
	case "String", "Slice", "SliceData", "StringData":
		// package unsafe. A string made from bytes is a snapshot in this
		// memory model (strings are values): if the bytes are changed later
		// the native run differs and the path is reported as a translation
		// mismatch, never as a pass.
		cellIndex := func(p Ptr) int {
			if p.Obj == nil {
				return -1
			}
			for i := range p.Obj.Cells {
				if &p.Obj.Cells[i] == p.Slot {
					return i
				}
			}
			return -1
		}
		switch b.Name() {
		case "String", "Slice":
			n := in.concIndex(in.to64(args[1], types.Typ[types.Int]), 1<<40, "makeslice")
			p := in.asPtr(args[0])
			if p.Slot == nil {
				if n != 0 {
					in.libPanic("unsafe-nil", "unsafe."+b.Name()+": ptr is nil and len is not zero")
				}
				if b.Name() == "String" {
					return Str{}
				}
				return Slice{}
			}
			off := cellIndex(p)
			if off < 0 || off+n > len(p.Obj.Cells) {
				in.inconclusive("unsafe." + b.Name() + " of memory that is not a slice's backing array")
			}
			in.noteAccess(p.Obj)
			if b.Name() == "Slice" {
				return Slice{p.Obj, off, n, n}
			}
			bs := make([]Sc, n)
			for i := range bs {
				sc, ok := p.Obj.Cells[off+i].(Sc)
				if !ok {
					in.inconclusive("unsafe.String of non-byte memory")
				}
				bs[i] = sc
			}
			return Str{B: bs}
		case "SliceData":
			sl := args[0].(Slice)
			if sl.Obj == nil || sl.Cap == 0 {
				return Ptr{}
			}
			return Ptr{&sl.Obj.Cells[sl.Off], sl.Obj}
		case "StringData":
			st := in.flat(args[0].(Str))
			if len(st.B) == 0 {
				return Ptr{}
			}
			o := in.newObj(len(st.B), "stringdata")
			for i, c := range st.B {
				o.Cells[i] = c
			}
			return Ptr{&o.Cells[0], o}
		}
	case "ssa:wrapnilchk":
		if isNilVal(args[0]) {
			in.libPanic("nil-deref", "wrapper nil check")
		}
		return args[0]
	}
	panic(pathEnd{"inconclusive", "builtin " + b.Name()})
}

func b2i(b bool) int {
	if b {
		return 1
	}
	return 0
}

func valSize(v Val) int {
	switch v := v.(type) {
	case Sc:
		if v.W == 0 {
			return 1
		}
		return int(v.W) / 8
	case Str:
		return 16
	case Struct:
		n := 0
		for _, f := range v {
			n += valSize(f)
		}
		return n
	case Array:
		n := 0
		for _, f := range v {
			n += valSize(f)
		}
		return n
	case Slice:
		return 24
	case Iface:
		return 16
	}
	return 8
}

func zeroLike(v Val) Val {
	switch v := v.(type) {
	case Sc:
		return Sc{W: v.W}
	case Str:
		return Str{}
	case Struct:
		z := make(Struct, len(v))
		for i := range v {
			z[i] = zeroLike(v[i])
		}
		return z
	case Array:
		z := make(Array, len(v))
		for i := range v {
			z[i] = zeroLike(v[i])
		}
		return z
	case Ptr:
		return Ptr{}
	case Slice:
		return Slice{}
	case Iface:
		return Iface{}
	}
	return nil
}
