package main

// Bit-slice normal form: terms built from shifts by constants, masks with
// constants, or/concat/zero-extension of byte-sized pieces are kept as a
// concatenation of segments (constant | extract of an atom | atom), so that
// re-assembling a value from its bytes yields the very same hash-consed term
// and the comparison costs no solver query.

type seg struct {
	t *Term // OConst, or any non-concat, non-zext term (possibly OExtract)
}

// segsOf flattens t into segments from most to least significant.
func (tt *TermTable) segsOf(t *Term, out []seg) []seg {
	switch t.Op {
	case OConcat:
		out = tt.segsOf(t.Args[0], out)
		return tt.segsOf(t.Args[1], out)
	case OZExt:
		out = append(out, seg{tt.Const(t.W-t.Args[0].W, 0)})
		return tt.segsOf(t.Args[0], out)
	}
	return append(out, seg{t})
}

func structured(t *Term) bool {
	return t.Op == OConcat || t.Op == OZExt || t.Op == OConst || (t.Op == OIte && t.Args[1].IsConst() && t.Args[2].IsConst())
}

// sliceSegs returns the segments for bits hi..lo of the value segs describes.
func (tt *TermTable) sliceSegs(segs []seg, hi, lo int) []seg {
	var out []seg
	pos := 0
	for _, s := range segs {
		pos += s.t.W
	}
	// pos = total width; walk from MSB
	top := pos - 1
	for _, s := range segs {
		sHi, sLo := top, top-s.t.W+1
		top = sLo - 1
		if sLo > hi || sHi < lo {
			continue
		}
		h, l := min(hi, sHi)-sLo, max(lo, sLo)-sLo
		out = append(out, seg{tt.rawExtract(h, l, s.t)})
	}
	return out
}

// rawExtract extracts from an atom (no segment analysis).
func (tt *TermTable) rawExtract(hi, lo int, a *Term) *Term {
	if lo == 0 && hi == a.W-1 {
		return a
	}
	switch a.Op {
	case OConst:
		return tt.Const(hi-lo+1, (a.C>>uint(lo))&mask(hi-lo+1))
	case OExtract:
		ilo := int(a.C & 0xff)
		return tt.rawExtract(hi+ilo, lo+ilo, a.Args[0])
	case OIte:
		if a.Args[1].IsConst() && a.Args[2].IsConst() {
			return tt.Ite(a.Args[0], tt.rawExtract(hi, lo, a.Args[1]), tt.rawExtract(hi, lo, a.Args[2]))
		}
	}
	return tt.mk(OExtract, hi-lo+1, uint64(hi)<<8|uint64(lo), "", a)
}

// fromSegs rebuilds a term, merging adjacent constants and adjacent
// extracts of the same atom.
func (tt *TermTable) fromSegs(segs []seg) *Term {
	var m []*Term
	for _, s := range segs {
		t := s.t
		if n := len(m); n > 0 {
			p := m[n-1]
			if p.Op == OConst && t.Op == OConst && p.W+t.W <= 64 {
				m[n-1] = tt.Const(p.W+t.W, p.C<<uint(t.W)|t.C)
				continue
			}
			// extract[h1:l1](x) ++ extract[h2:l2](x) with l1 == h2+1
			pb, ph, pl := extractOf(p)
			tb, th, tl := extractOf(t)
			if pb == tb && pl == th+1 {
				m[n-1] = tt.rawExtract(ph, tl, pb)
				continue
			}
		}
		m = append(m, t)
	}
	// build right-nested concat; a leading zero constant becomes zero_extend
	res := m[len(m)-1]
	for i := len(m) - 2; i >= 0; i-- {
		if i == 0 && m[0].Op == OConst && m[0].C == 0 {
			res = tt.mkZExt(res, res.W+m[0].W)
		} else {
			res = tt.mkConcat(m[i], res)
		}
	}
	return res
}

func extractOf(t *Term) (base *Term, hi, lo int) {
	if t.Op == OExtract {
		return t.Args[0], int(t.C >> 8), int(t.C & 0xff)
	}
	if t.Op == OConst {
		return nil, -1, -1
	}
	return t, t.W - 1, 0
}

func (tt *TermTable) mkZExt(a *Term, w int) *Term {
	if a.IsConst() {
		return tt.Const(w, a.C)
	}
	if a.Op == OZExt {
		a = a.Args[0]
	}
	return tt.mk(OZExt, w, 0, "", a)
}

func (tt *TermTable) mkConcat(a, b *Term) *Term {
	if a.IsConst() && b.IsConst() && a.W+b.W <= 64 {
		return tt.Const(a.W+b.W, a.C<<uint(b.W)|b.C)
	}
	return tt.mk(OConcat, a.W+b.W, 0, "", a, b)
}

// constRuns splits a constant into maximal runs of equal bits (MSB first).
func (tt *TermTable) constRuns(c *Term) []seg {
	var out []seg
	w := c.W
	i := w - 1
	for i >= 0 {
		bit := (c.C >> uint(i)) & 1
		j := i
		for j-1 >= 0 && (c.C>>uint(j-1))&1 == bit {
			j--
		}
		n := i - j + 1
		v := uint64(0)
		if bit == 1 {
			v = mask(n)
		}
		out = append(out, seg{tt.Const(n, v)})
		i = j - 1
	}
	return out
}

// bitwise applies and/or/xor segment-wise if every aligned piece resolves
// trivially; returns nil otherwise.
func (tt *TermTable) bitwise(op Op, a, b *Term) *Term {
	return tt.bitwise2(op, a, b, false)
}

// bitwise2 with disjoint=true succeeds only if in every aligned piece one
// side is zero (then a+b == a|b).
func (tt *TermTable) bitwise2(op Op, a, b *Term, disjoint bool) *Term {
	if !structured(a) && !structured(b) {
		return nil
	}
	expand := func(t *Term) []seg {
		var out []seg
		for _, s := range tt.segsOf(t, nil) {
			if s.t.Op == OConst {
				out = append(out, tt.constRuns(s.t)...)
			} else if tt.iteConst(s.t) {
				out = append(out, tt.iteRuns(s.t)...)
			} else {
				out = append(out, s)
			}
		}
		return out
	}
	sa, sb := expand(a), expand(b)
	// boundaries (as bit positions from LSB) of both
	bounds := map[int]bool{}
	mark := func(ss []seg) {
		p := a.W
		for _, s := range ss {
			p -= s.t.W
			bounds[p] = true
		}
	}
	mark(sa)
	mark(sb)
	var cuts []int
	for p := a.W - 1; p >= 0; p-- {
		if bounds[p] {
			cuts = append(cuts, p)
		}
	}
	var out []seg
	hi := a.W - 1
	unresolved := 0
	for _, lo := range cuts {
		pa := tt.fromSegs(tt.sliceSegs(sa, hi, lo))
		pb := tt.fromSegs(tt.sliceSegs(sb, hi, lo))
		w := hi - lo + 1
		var r *Term
		isZero := func(t *Term) bool { return t.IsConst() && t.C == 0 }
		isOnes := func(t *Term) bool { return t.IsConst() && t.C == mask(w) }
		if disjoint && !isZero(pa) && !isZero(pb) {
			return nil
		}
		switch {
		case pa.IsConst() && pb.IsConst():
			r = tt.Const(w, evalOp(op, w, 0, []uint64{pa.C, pb.C}, []int{w, w}))
		case pa == pb && op != OBvXor:
			r = pa
		case pa == pb:
			r = tt.Const(w, 0)
		case op == OBvOr && isZero(pa), op == OBvXor && isZero(pa), op == OBvAnd && isOnes(pa):
			r = pb
		case op == OBvOr && isZero(pb), op == OBvXor && isZero(pb), op == OBvAnd && isOnes(pb):
			r = pa
		case op == OBvAnd && (isZero(pa) || isZero(pb)):
			r = tt.Const(w, 0)
		case op == OBvOr && (isOnes(pa) || isOnes(pb)):
			r = tt.Const(w, mask(w))
		default:
			if disjoint {
				return nil
			}
			unresolved++
			x, y := pa, pb
			if x.ID > y.ID {
				x, y = y, x
			}
			r = tt.mk(op, w, 0, "", x, y)
		}
		out = append(out, tt.segsOf(r, nil)...)
		hi = lo - 1
	}
	if unresolved >= len(cuts) {
		return nil
	}
	return tt.fromSegs(out)
}

// iteConstMap applies f to both constant branches of an ite.
func (tt *TermTable) iteConst(t *Term) bool {
	return t.Op == OIte && t.Args[1].IsConst() && t.Args[2].IsConst()
}

// eqSegs compares two terms segment-wise when that splits the equality into
// trivially true/false parts or smaller equalities; nil = no rewrite.
func (tt *TermTable) eqSegs(a, b *Term) *Term {
	sa, sb := tt.segsOf(a, nil), tt.segsOf(b, nil)
	if len(sa) == 1 && len(sb) == 1 {
		return nil
	}
	bounds := map[int]bool{}
	mark := func(ss []seg) {
		p := a.W
		for _, s := range ss {
			p -= s.t.W
			bounds[p] = true
		}
	}
	mark(sa)
	mark(sb)
	var cuts []int
	for p := a.W - 1; p >= 0; p-- {
		if bounds[p] {
			cuts = append(cuts, p)
		}
	}
	if len(cuts) <= 1 {
		return nil
	}
	res := tt.Bool(true)
	hi := a.W - 1
	for _, lo := range cuts {
		pa := tt.fromSegs(tt.sliceSegs(sa, hi, lo))
		pb := tt.fromSegs(tt.sliceSegs(sb, hi, lo))
		res = tt.And(res, tt.eqAtom(pa, pb))
		if res.IsFalse() {
			return res
		}
		hi = lo - 1
	}
	return res
}

// iteRuns splits ite(c, k1, k2) into runs of bits where the two constants
// agree (constant runs) or differ (smaller ite pieces), MSB first.
func (tt *TermTable) iteRuns(t *Term) []seg {
	c, k1, k2 := t.Args[0], t.Args[1].C, t.Args[2].C
	var out []seg
	cls := func(i int) int {
		b1, b2 := (k1>>uint(i))&1, (k2>>uint(i))&1
		if b1 != b2 {
			return 2
		}
		return int(b1)
	}
	i := t.W - 1
	for i >= 0 {
		cl := cls(i)
		j := i
		for j-1 >= 0 && cls(j-1) == cl {
			j--
		}
		n := i - j + 1
		switch cl {
		case 0:
			out = append(out, seg{tt.Const(n, 0)})
		case 1:
			out = append(out, seg{tt.Const(n, mask(n))})
		default:
			out = append(out, seg{tt.Ite(c, tt.Const(n, (k1>>uint(j))&mask(n)), tt.Const(n, (k2>>uint(j))&mask(n)))})
		}
		i = j - 1
	}
	return out
}

func (tt *TermTable) eqAtom(a, b *Term) *Term {
	if a == b {
		return tt.Bool(true)
	}
	if a.IsConst() && b.IsConst() {
		return tt.Bool(a.C == b.C)
	}
	if a.IsConst() {
		a, b = b, a
	}
	if tt.iteConst(a) && b.IsConst() {
		k1, k2 := a.Args[1].C, a.Args[2].C
		switch {
		case k1 == b.C && k2 == b.C:
			return tt.Bool(true)
		case k1 == b.C:
			return a.Args[0]
		case k2 == b.C:
			return tt.Not(a.Args[0])
		default:
			return tt.Bool(false)
		}
	}
	if a.ID > b.ID {
		a, b = b, a
	}
	return tt.app(OEq, 0, 0, a, b)
}
