package main

import (
	"bufio"
	"bytes"
	"context"
	"encoding/json"
	"fmt"
	"os"
	"os/exec"
	"path/filepath"
	"strings"
	"time"
)

type NativeResult struct {
	ID      int      `json:"id"`
	Outcome string   `json:"outcome"`
	Emits   []string `json:"emits"`
}

// Native builds the replay test binary from the repository's current working
// tree plus the harness (overlay) and runs cases through it.
type Native struct {
	dir       string // scratch directory (removed by Close)
	bin       string
	built     bool
	raceBin   string
	raceBuilt bool
	BuildS    float64
}

func NewNative() (*Native, error) {
	d, err := os.MkdirTemp("", "verif-native-")
	if err != nil {
		return nil, err
	}
	return &Native{dir: d, bin: filepath.Join(d, "replay.test")}, nil
}

func (n *Native) Close() { os.RemoveAll(n.dir) }

func (n *Native) Build(race bool) error {
	if race {
		return n.buildRace()
	}
	if n.built {
		return nil
	}
	t0 := time.Now()
	ov, err := harnessOverlay(true)
	if err != nil {
		return err
	}
	js, _ := json.Marshal(map[string]interface{}{"Replace": ov})
	ovPath := filepath.Join(n.dir, "overlay.json")
	if err := os.WriteFile(ovPath, js, 0o644); err != nil {
		return err
	}
	args := []string{"test", "-c", "-tags", "verif", "-vet=off", "-overlay", ovPath, "-o", n.bin}
	if race {
		args = append(args, "-race")
	}
	args = append(args, ".")
	cmd := exec.Command("go", args...)
	cmd.Dir = repoDir
	cmd.Env = append(goEnv(), "GOCACHE="+goCache())
	out, err := cmd.CombinedOutput()
	if err != nil {
		return fmt.Errorf("building the native replay binary failed: %v\n%s", err, out)
	}
	n.built = true
	n.BuildS = time.Since(t0).Seconds()
	return nil
}

func (n *Native) buildRace() error {
	if n.raceBuilt {
		return nil
	}
	ovPath := filepath.Join(n.dir, "overlay.json")
	if _, err := os.Stat(ovPath); err != nil {
		ov, err := harnessOverlay(true)
		if err != nil {
			return err
		}
		js, _ := json.Marshal(map[string]interface{}{"Replace": ov})
		if err := os.WriteFile(ovPath, js, 0o644); err != nil {
			return err
		}
	}
	n.raceBin = filepath.Join(n.dir, "replay-race.test")
	cmd := exec.Command("go", "test", "-c", "-race", "-tags", "verif", "-vet=off", "-overlay", ovPath, "-o", n.raceBin, ".")
	cmd.Dir = repoDir
	cmd.Env = append(goEnv(), "GOCACHE="+goCache(), "CGO_ENABLED=1")
	out, err := cmd.CombinedOutput()
	if err != nil {
		return fmt.Errorf("building the race-detector replay binary failed: %v\n%s", err, out)
	}
	n.raceBuilt = true
	return nil
}

// RunRace runs one case in the race-detector build; reports whether the
// detector found a data race.
func (n *Native) RunRace(c ReplayCase) (bool, string, error) {
	if err := n.buildRace(); err != nil {
		return false, "", err
	}
	inPath := filepath.Join(n.dir, "race-case.jsonl")
	outPath := filepath.Join(n.dir, "race-result.jsonl")
	js, _ := json.Marshal(struct {
		ID    int               `json:"id"`
		Fn    string            `json:"fn"`
		Args  []int             `json:"args"`
		Model map[string]uint64 `json:"model"`
	}{0, c.Fn, c.Args, c.Model})
	if err := os.WriteFile(inPath, append(js, '\n'), 0o644); err != nil {
		return false, "", err
	}
	ctx, cancel := context.WithTimeout(context.Background(), 120*time.Second)
	defer cancel()
	cmd := exec.CommandContext(ctx, n.raceBin, "-test.run", "^TestZZReplay$", "-test.timeout", "0")
	cmd.Dir = repoDir
	cmd.Env = append(os.Environ(), "VERIF_CASES="+inPath, "VERIF_RESULTS="+outPath, "GORACE=halt_on_error=0")
	out, _ := cmd.CombinedOutput()
	resTxt, _ := os.ReadFile(outPath)
	os.Remove(inPath)
	os.Remove(outPath)
	txt := string(out)
	if strings.Contains(txt, "WARNING: DATA RACE") {
		i := strings.Index(txt, "WARNING: DATA RACE")
		return true, lastLinesFrom(txt[i:], 14), nil
	}
	if !strings.Contains(string(resTxt), `"outcome":"ok"`) {
		// the goroutines did not all finish normally (deadlock, panic, hang):
		// the absence of a race report means nothing
		return false, "", fmt.Errorf("race-detector run did not complete: %s / %s", strings.TrimSpace(string(resTxt)), lastLines(txt, 3))
	}
	return false, "completed without a race report: " + lastLines(txt, 2), nil
}

func lastLinesFrom(s string, n int) string {
	ls := strings.Split(strings.TrimSpace(s), "\n")
	if len(ls) > n {
		ls = ls[:n]
	}
	return strings.Join(ls, " / ")
}

func goCache() string {
	if v := os.Getenv("GOCACHE"); v != "" {
		return v
	}
	h, _ := os.UserCacheDir()
	return filepath.Join(h, "go-build")
}

// runBatch runs the cases in one process; returns results by ID. A case
// whose process crashed or hung gets outcome "crash" / "hang".
func (n *Native) runBatch(cases []ReplayCase, perBatchTimeout time.Duration) (map[int]NativeResult, error) {
	results := map[int]NativeResult{}
	rest := cases
	round := 0
	for len(rest) > 0 {
		round++
		inPath := filepath.Join(n.dir, fmt.Sprintf("cases-%d.jsonl", round))
		outPath := filepath.Join(n.dir, fmt.Sprintf("results-%d.jsonl", round))
		f, err := os.Create(inPath)
		if err != nil {
			return nil, err
		}
		w := bufio.NewWriter(f)
		enc := json.NewEncoder(w)
		for _, c := range rest {
			enc.Encode(struct {
				ID    int               `json:"id"`
				Fn    string            `json:"fn"`
				Args  []int             `json:"args"`
				Model map[string]uint64 `json:"model"`
			}{c.ID, c.Fn, c.Args, c.Model})
		}
		w.Flush()
		f.Close()
		ctx, cancel := context.WithTimeout(context.Background(), perBatchTimeout)
		// address-space limit so that a non-terminating, allocating decode
		// cannot exhaust the machine
		cmd := exec.CommandContext(ctx, "sh", "-c", `ulimit -v 12582912; exec "$0" -test.run '^TestZZReplay$' -test.timeout 0`, n.bin)
		cmd.Dir = repoDir
		cmd.Env = append(os.Environ(), "VERIF_CASES="+inPath, "VERIF_RESULTS="+outPath, "GOMEMLIMIT=4GiB")
		var so bytes.Buffer
		cmd.Stdout = &so
		cmd.Stderr = &so
		runErr := cmd.Run()
		timedOut := ctx.Err() == context.DeadlineExceeded
		cancel()
		got := 0
		if rf, err := os.Open(outPath); err == nil {
			sc := bufio.NewScanner(rf)
			sc.Buffer(make([]byte, 1<<20), 1<<28)
			for sc.Scan() {
				var r NativeResult
				if json.Unmarshal(sc.Bytes(), &r) == nil {
					results[r.ID] = r
					got++
				}
			}
			rf.Close()
		}
		os.Remove(inPath)
		os.Remove(outPath)
		if got >= len(rest) {
			break
		}
		if got > 0 && strings.HasPrefix(results[rest[got-1].ID].Outcome, "hang:") {
			// the runner's own watchdog recorded the hang and left
			rest = rest[got:]
			continue
		}
		// the case after the last result is the one that crashed or hung
		bad := rest[got]
		oc := "crash"
		if timedOut {
			oc = "hang"
		}
		if runErr == nil && !timedOut {
			return results, fmt.Errorf("native runner ended early without error after %d of %d cases: %s", got, len(rest), so.String())
		}
		results[bad.ID] = NativeResult{ID: bad.ID, Outcome: oc + ":" + lastLines(so.String(), 3)}
		rest = rest[got+1:]
	}
	return results, nil
}

func lastLines(s string, n int) string {
	ls := strings.Split(strings.TrimSpace(s), "\n")
	if len(ls) > n {
		ls = ls[len(ls)-n:]
	}
	return strings.Join(ls, " / ")
}

// Run runs cases natively. Cases expected to exhaust a budget are run one
// per process under a short watchdog.
func (n *Native) Run(cases []ReplayCase) (map[int]NativeResult, error) {
	if len(cases) == 0 {
		return map[int]NativeResult{}, nil
	}
	if err := n.Build(false); err != nil {
		return nil, err
	}
	var normal, risky, single []ReplayCase
	for _, c := range cases {
		switch {
		case c.Outcome == "budget":
			risky = append(risky, c)
		case c.Outcome != "ok":
			// counterexamples run in a process of their own: package-level
			// state left behind by other cases must not influence them
			single = append(single, c)
		default:
			normal = append(normal, c)
		}
	}
	res, err := n.runBatch(normal, 10*time.Minute)
	if err != nil {
		return nil, err
	}
	for _, c := range single {
		r, err := n.runBatch([]ReplayCase{c}, time.Minute)
		if err != nil {
			return nil, err
		}
		for k, v := range r {
			res[k] = v
		}
	}
	for _, c := range risky {
		r, err := n.runBatch([]ReplayCase{c}, 5*time.Second)
		if err != nil {
			return nil, err
		}
		for k, v := range r {
			res[k] = v
		}
	}
	return res, nil
}

// confirms reports whether the native result reproduces the expected outcome
// of a violation case.
func confirms(c ReplayCase, r NativeResult) bool {
	switch {
	case strings.HasPrefix(c.Outcome, "assert:"):
		return r.Outcome == c.Outcome
	case c.Outcome == "race":
		return r.Outcome == "race" // set by the caller from a race-detector run
	case c.Outcome == "panic":
		return strings.HasPrefix(r.Outcome, "panic:")
	case c.Outcome == "budget":
		return strings.HasPrefix(r.Outcome, "hang") || strings.HasPrefix(r.Outcome, "crash") || strings.HasPrefix(r.Outcome, "assert:allocation budget")
	}
	return false
}

func sameEmits(a, b []string) bool {
	if len(a) != len(b) {
		return false
	}
	for i := range a {
		if a[i] != b[i] {
			return false
		}
	}
	return true
}
