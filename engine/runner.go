package main

import (
	"fmt"
	"os"
	"runtime/debug"
	"sort"
	"strings"
	"sync"
	"sync/atomic"
	"time"

	"golang.org/x/tools/go/ssa"
)

// Job is one harness function with concrete shape parameters.
type Job struct {
	Prop        string
	Family      string // violation signatures are per family
	Fn          string
	Args        []int
	StepBudget  int
	AllocBudget int
	OrderMode   string
	Split       int      // split depth (0 = run in one piece)
	Reach       []string // vacuity markers that must be reached by the family
	NoValidate  bool     // observations are not natively comparable (map order, monitors)

	prefix      []PrefixStep
	prefixFresh bool
	parent      *Job
	pathCount   int64 // of the root job: paths of the job and all its sub-jobs
}

func (j *Job) String() string {
	s := fmt.Sprintf("%s%v", j.Fn, j.Args)
	if j.prefix != nil {
		s += fmt.Sprintf("@%d", len(j.prefix))
	}
	return s
}

// ReplayCase is what the native runner needs to re-execute one path.
type ReplayCase struct {
	ID      int               `json:"id"`
	Fn      string            `json:"fn"`
	Args    []int             `json:"args"`
	Model   map[string]uint64 `json:"model"`
	Outcome string            `json:"expect_outcome"`
	Emits   []string          `json:"expect_emits"`
	Sig     string            `json:"signature,omitempty"`
	Where   string            `json:"where,omitempty"`
	Detail  string            `json:"detail,omitempty"`
}

type ViolGroup struct {
	Sig   string
	Count int
	More  []ReplayCase // further instances (other jobs) tried if the first does not reproduce
	First ReplayCase
	Kind  string
	Label string
	Order bool
}

type JobResult struct {
	Job      *Job
	Paths    int
	Pruned   int
	Outcomes map[string]int
	Viols    map[string]*ViolGroup
	Validate []ReplayCase
	Samples  []ReplayCase
	Reach    map[string]bool
	Inconc   []string
	St       ExStats
	Queries  [4]int // total, sat, unsat, unknown
	XQueries int
	SolverT  time.Duration
	Steps    int
	MaxSteps int
	MaxAlloc int
	Funcs    map[string]int
	SubJobs  []*Job
	Wall     time.Duration
	Asserts  int
	Donated  int
	Aborted  bool
}

type Worker struct {
	pool    *Pool
	id      int
	w       *World
	solver  *Solver
	xsolver *Solver
	cfg     *RunConfig
}

type RunConfig struct {
	Tier        string
	Seed        int64
	Workers     int
	XEvery      int
	ValidateCap int // per job
	Verbose     bool
	TLimitMs    int
	MaxPaths    int
	StopAfter   time.Duration
	NarrowAfter int           // paths per job (sub-jobs included) after which new decisions keep one alternative only
	HardStop    time.Duration // wall-clock limit of the whole exploration, violation or not
}

func newWorker(id int, w *World, cfg *RunConfig) (*Worker, error) {
	s, err := NewSolver("cvc5", cfg.TLimitMs)
	if err != nil {
		return nil, err
	}
	wk := &Worker{id: id, w: w, solver: s, cfg: cfg}
	if cfg.XEvery > 0 {
		x, err := NewSolver("z3", cfg.TLimitMs)
		if err != nil {
			return nil, err
		}
		wk.xsolver = x
	}
	return wk, nil
}

func (wk *Worker) close() {
	wk.solver.Close()
	if wk.xsolver != nil {
		wk.xsolver.Close()
	}
}

func newInterp(w *World, tt *TermTable, ex *Explorer, job *Job, funcs map[string]int) *Interp {
	in := &Interp{w: w, tt: tt, ex: ex, globals: map[*ssa.Global]Ptr{}, funcsRun: funcs,
		reach: map[string]bool{}, builders: map[*Val]*[]Piece{}, ioErrs: map[string]*ErrV{}, pools: map[*Val][]Val{}, pureDone: map[*ssa.Package]bool{}}
	in.noIfConv = os.Getenv("VERIF_NO_IFCONV") != ""
	in.poolMonitor = job.Prop == "C13" || job.Prop == "C14" || job.Prop == "CXX"
	in.stepBudget = job.StepBudget
	if in.stepBudget == 0 {
		// default: generous for small shapes; work may grow linearly with
		// the sizes a job asks for (arguments >= 1000 are lengths)
		in.stepBudget = 200000
		for _, a := range job.Args {
			if a >= 1000 {
				in.stepBudget += 40 * a
			}
		}
	}
	in.allocBudget = job.AllocBudget
	in.orderMode = job.OrderMode
	return in
}

func intArgs(in *Interp, args []int) Val {
	o := in.newObj(len(args), "args")
	for i, a := range args {
		o.Cells[i] = concInt(64, uint64(int64(a)))
	}
	return Slice{o, 0, len(args), len(args)}
}

func runPath(in *Interp, h *ssa.Function, args []int) (out pathEnd) {
	defer func() {
		if r := recover(); r != nil {
			if pe, ok := r.(pathEnd); ok {
				out = pe
				return
			}
			out = pathEnd{"inconclusive", fmt.Sprintf("engine panic: %v\n%s", r, debug.Stack())}
		}
	}()
	budget := in.stepBudget
	in.stepBudget = 1 << 30
	in.callFunction(in.w.mq.Func("init"), nil, nil)
	in.stack = in.stack[:0]
	in.steps = 0
	in.allocBytes = 0
	in.stepBudget = budget
	in.initMark = in.objSeq
	in.globalWrites = 0
	in.callFunction(h, []Val{intArgs(in, args)}, nil)
	return pathEnd{kind: "ok"}
}

// runInit executes the body of a dependency's package initialiser (its own
// imports' initialisers are skipped like all others).
func (in *Interp) runInit(ini *ssa.Function) {
	fr := &Frame{fn: ini, lib: false}
	if n, ok := in.w.fnSlots[ini]; ok {
		fr.slots = make([]Val, n)
	} else {
		fr.env = map[ssa.Value]Val{}
	}
	in.stack = append(in.stack, fr)
	fr.block = ini.Blocks[0]
	for {
		_, done := in.runBlock(fr)
		if done {
			break
		}
	}
	in.stack = in.stack[:len(in.stack)-1]
}

func renderEmits(emits []Emit, m map[string]uint64) []string {
	memo := map[int]uint64{}
	out := make([]string, 0, len(emits))
	for _, e := range emits {
		switch v := e.V.(type) {
		case Sc:
			x := v.C
			if v.T != nil {
				x = Eval(v.T, m, memo)
			}
			out = append(out, fmt.Sprintf("%s=%d", e.Tag, x))
		case Str:
			out = append(out, e.Tag+"="+quoteLikeGo(renderStr(v, m)))
		default:
			out = append(out, fmt.Sprintf("%s=?%T", e.Tag, v))
		}
	}
	return out
}

func quoteLikeGo(s string) string { return fmt.Sprintf("%q", s) }

func panicClass(msg string) string {
	// msg = kind@func|detail
	if i := strings.IndexByte(msg, '|'); i >= 0 {
		return msg[:i]
	}
	return msg
}

func (wk *Worker) runJob(job *Job) *JobResult {
	t0 := time.Now()
	res := &JobResult{Job: job, Outcomes: map[string]int{}, Viols: map[string]*ViolGroup{}, Reach: map[string]bool{}, Funcs: map[string]int{}}
	h := wk.w.mq.Func(job.Fn)
	if h == nil {
		res.Inconc = append(res.Inconc, "no harness function "+job.Fn)
		return res
	}
	tt := NewTermTable()
	wk.solver.Reset()
	q0 := [4]int{wk.solver.NQueries, wk.solver.NSat, wk.solver.NUnsat, wk.solver.NUnknown}
	st0 := wk.solver.Time
	xq0 := 0
	if wk.xsolver != nil {
		wk.xsolver.Reset()
		xq0 = wk.xsolver.NQueries
	}
	ex := NewExplorer(tt, wk.solver, wk.xsolver, wk.cfg.XEvery)
	if job.prefix == nil {
		ex.splitDepth = job.Split
	} else {
		ex.LoadPrefix(job.prefix)
		ex.prefixFresh = job.prefixFresh
	}
	addViol := func(v Violation, emits []string) {
		label := v.Label
		if v.Kind == "panic" || v.Kind == "budget" {
			label = v.Kind + ":" + v.Label
		}
		sig := job.Prop + "/" + job.Family + "/" + label
		g := res.Viols[sig]
		if g == nil {
			g = &ViolGroup{Sig: sig, Kind: v.Kind, Label: v.Label, Order: v.Order}
			oc := "assert:" + v.Label
			if v.Kind == "panic" {
				oc = "panic"
			} else if v.Kind == "budget" {
				oc = "budget"
			}
			g.First = ReplayCase{Fn: job.Fn, Args: job.Args, Model: v.Model, Outcome: oc, Sig: sig, Where: v.Where}
			res.Viols[sig] = g
		}
		g.Count++
	}
	validated := 0
	root := job
	for root.parent != nil {
		root = root.parent
	}
	for {
		if wk.cfg.NarrowAfter > 0 && atomic.AddInt64(&root.pathCount, 1) > int64(wk.cfg.NarrowAfter) {
			ex.Narrow = true
		}
		in := newInterp(wk.w, tt, ex, job, res.Funcs)
		ex.beginRun()
		out := runPath(in, h, job.Args)
		for k := range in.reach {
			res.Reach[k] = true
		}
		for _, v := range in.viols {
			addViol(v, nil)
		}
		res.Steps += in.steps
		res.MaxSteps = max(res.MaxSteps, in.steps)
		res.MaxAlloc = max(res.MaxAlloc, in.allocBytes)
		key := out.kind
		switch out.kind {
		case "ok", "assertfalse":
			res.Paths++
			canValidate := !job.NoValidate && !in.orderDev
			if out.kind == "ok" && ((canValidate && validated < wk.cfg.ValidateCap) || len(res.Samples) < 2) {
				func() {
					defer func() {
						if r := recover(); r != nil {
							if pe, ok := r.(pathEnd); ok {
								res.Inconc = append(res.Inconc, pe.msg)
								return
							}
							panic(r)
						}
					}()
					m := ex.Model()
					c := ReplayCase{Fn: job.Fn, Args: job.Args, Model: m, Outcome: "ok", Emits: renderEmits(in.emits, m)}
					if canValidate && validated < wk.cfg.ValidateCap {
						res.Validate = append(res.Validate, c)
						validated++
					}
					if len(res.Samples) < 2 {
						res.Samples = append(res.Samples, c)
					}
				}()
			}
		case "panic", "budget":
			res.Paths++
			var m map[string]uint64
			func() {
				defer func() {
					if r := recover(); r != nil {
						if pe, ok := r.(pathEnd); ok {
							res.Inconc = append(res.Inconc, pe.msg)
							return
						}
						panic(r)
					}
				}()
				m = ex.Model()
			}()
			cls := panicClass(out.msg)
			where := ""
			if i := strings.IndexByte(cls, '@'); i >= 0 {
				where = cls[i+1:]
			}
			addViol(Violation{Kind: out.kind, Label: cls, Model: m, Where: where, Order: in.orderDev}, nil)
			key = out.kind + ":" + cls
		case "assume":
			res.Pruned++
		case "split":
		case "inconclusive", "harness":
			res.Inconc = append(res.Inconc, out.kind+": "+out.msg)
			key = out.kind
		}
		res.Outcomes[key]++
		if wk.cfg.Verbose && (out.kind == "inconclusive" || out.kind == "harness") {
			fmt.Fprintf(os.Stderr, "[%s] %s: %s\n", job, out.kind, out.msg)
		}
		if len(res.Inconc) > 20 {
			break
		}
		if wk.pool != nil {
			if len(res.Viols) > 0 {
				atomic.StoreInt32(&wk.pool.violFound, 1)
			}
			if wk.pool.stopAfter > 0 && atomic.LoadInt32(&wk.pool.violFound) == 1 && time.Since(wk.pool.start) > wk.pool.stopAfter {
				atomic.StoreInt32(&wk.pool.stopped, 1)
				res.Aborted = true
				break
			}
		}
		if wk.pool != nil && wk.cfg.HardStop > 0 && time.Since(wk.pool.start) > wk.cfg.HardStop {
			// no verdict within the wall-clock limit of the tier: reported as
			// inconclusive, never as a pass
			atomic.StoreInt32(&wk.pool.stopped, 1)
			res.Inconc = append(res.Inconc, fmt.Sprintf("exploration not finished within %v (job %s%v had explored %d paths)", wk.cfg.HardStop, job.Fn, job.Args, res.Paths))
			break
		}
		if wk.cfg.MaxPaths > 0 && res.Paths >= wk.cfg.MaxPaths {
			res.Inconc = append(res.Inconc, "max paths reached")
			break
		}
		// work stealing: if workers are idle, give away the unexplored
		// alternatives of the shallowest open decision
		if wk.pool != nil && res.Paths%16 == 0 && wk.pool.idleWorkers() > 0 {
			if ps := ex.Donate(); ps != nil {
				var sjs []*Job
				for _, p := range ps {
					sj := *job
					sj.prefix = p
					sj.prefixFresh = true
					sj.parent = job
					sjs = append(sjs, &sj)
				}
				wk.pool.submit(sjs)
				res.Donated += len(sjs)
			}
		}
		if !ex.next() {
			break
		}
	}
	// leave the solvers at level 0 for the next job
	if wk.solver.level > 0 {
		wk.solver.Pop(wk.solver.level)
	}
	if wk.xsolver != nil && wk.xsolver.level > 0 {
		wk.xsolver.Pop(wk.xsolver.level)
	}
	res.Inconc = append(res.Inconc, ex.inconc...)
	res.Inconc = dedupStrings(res.Inconc)
	for _, p := range ex.prefixes {
		sj := *job
		sj.prefix = p
		sj.parent = job
		res.SubJobs = append(res.SubJobs, &sj)
	}
	res.St = ex.St
	res.Queries = [4]int{wk.solver.NQueries - q0[0], wk.solver.NSat - q0[1], wk.solver.NUnsat - q0[2], wk.solver.NUnknown - q0[3]}
	res.SolverT = wk.solver.Time - st0
	if wk.xsolver != nil {
		res.XQueries = wk.xsolver.NQueries - xq0
	}
	res.Wall = time.Since(t0)
	return res
}

func dedupStrings(a []string) []string {
	seen := map[string]bool{}
	var out []string
	for _, s := range a {
		if !seen[s] {
			seen[s] = true
			out = append(out, s)
		}
	}
	return out
}

// Pool is the shared job queue.
type Pool struct {
	start     time.Time
	stopAfter time.Duration // once a violation was found, stop exploring after this long
	violFound int32
	stopped   int32
	mu        sync.Mutex
	cond      *sync.Cond
	queue     []*Job
	pending   int // queued + running
	idle      int
	results   []*JobResult
}

func (p *Pool) idleWorkers() int {
	p.mu.Lock()
	defer p.mu.Unlock()
	if len(p.queue) > 0 {
		return 0
	}
	return p.idle
}

func (p *Pool) submit(jobs []*Job) {
	p.mu.Lock()
	p.queue = append(append([]*Job{}, jobs...), p.queue...)
	p.pending += len(jobs)
	p.mu.Unlock()
	p.cond.Broadcast()
}

// runPool runs all jobs (and the sub-jobs they split into or donate) on
// cfg.Workers workers.
func runPool(w *World, cfg *RunConfig, jobs []*Job) ([]*JobResult, error) {
	p := &Pool{queue: append([]*Job{}, jobs...), pending: len(jobs), start: time.Now(), stopAfter: cfg.StopAfter}
	p.cond = sync.NewCond(&p.mu)
	var wg sync.WaitGroup
	for i := 0; i < cfg.Workers; i++ {
		wk, err := newWorker(i, w, cfg)
		if err != nil {
			return nil, err
		}
		wk.pool = p
		wg.Add(1)
		go func(wk *Worker) {
			defer wg.Done()
			defer func() { wk.close() }()
			for {
				p.mu.Lock()
				p.idle++
				for len(p.queue) == 0 && p.pending > 0 {
					p.cond.Wait()
				}
				p.idle--
				if p.pending == 0 {
					p.mu.Unlock()
					p.cond.Broadcast()
					return
				}
				job := p.queue[0]
				p.queue = p.queue[1:]
				p.mu.Unlock()
				var res *JobResult
				if atomic.LoadInt32(&p.stopped) == 1 {
					// a violation was found and the time budget is used up:
					// the remaining jobs are not explored
					res = &JobResult{Job: job, Outcomes: map[string]int{}, Viols: map[string]*ViolGroup{}, Reach: map[string]bool{}, Funcs: map[string]int{}, Aborted: true}
					p.mu.Lock()
					p.results = append(p.results, res)
					p.pending--
					p.mu.Unlock()
					p.cond.Broadcast()
					continue
				}
				func() {
					defer func() {
						if r := recover(); r != nil {
							res = &JobResult{Job: job, Outcomes: map[string]int{}, Viols: map[string]*ViolGroup{}, Reach: map[string]bool{}, Funcs: map[string]int{}}
							res.Inconc = append(res.Inconc, fmt.Sprintf("worker panic: %v\n%s", r, debug.Stack()))
							// the solver process state is unknown: restart it
							wk.solver.Close()
							wk.solver, _ = NewSolver("cvc5", cfg.TLimitMs)
						}
					}()
					res = wk.runJob(job)
				}()
				p.mu.Lock()
				p.results = append(p.results, res)
				if len(res.SubJobs) > 0 {
					p.queue = append(append([]*Job{}, res.SubJobs...), p.queue...)
					p.pending += len(res.SubJobs)
				}
				p.pending--
				if cfg.Verbose {
					fmt.Fprintf(os.Stderr, "[w%d] %s: %d paths, %d viol sigs, %d sub-jobs, %d donated, %.2fs (%d pending)\n", wk.id, job, res.Paths, len(res.Viols), len(res.SubJobs), res.Donated, res.Wall.Seconds(), p.pending)
				}
				p.mu.Unlock()
				p.cond.Broadcast()
			}
		}(wk)
	}
	wg.Wait()
	results := p.results
	sort.SliceStable(results, func(i, j int) bool { return results[i].Job.String() < results[j].Job.String() })
	return results, nil
}
