package main

// Lock modelling. The executor runs one thread; locks therefore never block.
// What is modelled is the *discipline*: every access by library code to memory
// that is shared between goroutines (marked by zzMarkShared) is recorded with
// the set of locks held (Eraser's lockset refinement). A shared location that
// is written after the mark and whose accesses have no lock in common is
// counted as an unsynchronised write, exactly like a write with no lock held.
//
// sync.Once is a lock that is held while the function runs and - because
// returning from Do happens-after the function's completion in every
// goroutine - stays in the held set of the path afterwards. sync/atomic
// operations are synchronised accesses and are not recorded.
//
// The model does not follow happens-before edges other than these (a flag
// published with an atomic store, channels): a correct program that relies on
// them can be flagged. That is why a finding of this monitor is a violation
// only after the native race-detector run has reproduced it (see
// confirmIndirect); the race detector tracks happens-before precisely.
//
// The tracking costs a map operation per load; it is switched on only when the
// library under test calls into sync (other than sync.Pool) or sync/atomic at
// all (World.usesSync, computed from the SSA of the current tree).

import (
	"fmt"
	"go/types"
	"strings"

	"golang.org/x/tools/go/ssa"
	"golang.org/x/tools/go/ssa/ssautil"
)

type lockKey struct {
	o    *Obj
	slot *Val
}

type lockInfo struct {
	set     []*Val
	pub     []*Val // atomic variables stored to (release) after the last write under a lock
	written bool
	flagged bool
}

type lockState struct {
	held     []*Val
	onceDone map[*Val]bool
	cells    map[lockKey]*lockInfo
	atomics  map[*Val]Val  // atomic.Value / atomic.Pointer contents by receiver
	acquired map[*Val]bool // atomic variables this path has loaded or stored
	wkeys    []lockKey     // locations written under a lock since the mark
	ops      int
}

func (w *World) scanSync() {
	for fn := range ssautil.AllFunctions(w.prog) {
		root := fn
		for root.Parent() != nil {
			root = root.Parent()
		}
		if root.Pkg != w.mq || w.harnessFn[fn] {
			continue
		}
		for _, b := range fn.Blocks {
			for _, ins := range b.Instrs {
				var cc *ssa.CallCommon
				switch c := ins.(type) {
				case *ssa.Call:
					cc = &c.Call
				case *ssa.Defer:
					cc = &c.Call
				case *ssa.Go:
					cc = &c.Call
				}
				if cc == nil {
					continue
				}
				callee := cc.StaticCallee()
				if callee == nil {
					continue
				}
				n := callee.String()
				if strings.Contains(n, "sync/atomic.") || strings.Contains(n, "sync.Mutex)") || strings.Contains(n, "sync.RWMutex)") || strings.Contains(n, "sync.Once)") || strings.HasPrefix(n, "sync.Once") {
					w.usesSync = true
					return
				}
			}
		}
	}
}

func (in *Interp) ls() *lockState {
	if in.locks == nil {
		in.locks = &lockState{onceDone: map[*Val]bool{}, cells: map[lockKey]*lockInfo{}, atomics: map[*Val]Val{}, acquired: map[*Val]bool{}}
	}
	return in.locks
}

func (in *Interp) lockAcquire(m *Val) {
	ls := in.ls()
	ls.ops++
	ls.held = append(ls.held, m)
}

func (in *Interp) lockRelease(m *Val) {
	ls := in.ls()
	for i := len(ls.held) - 1; i >= 0; i-- {
		if ls.held[i] == m {
			ls.held = append(ls.held[:i:i], ls.held[i+1:]...)
			return
		}
	}
	in.libPanic("unlock-of-unlocked", "sync: unlock of unlocked mutex")
}

func (in *Interp) locksHeld() int {
	if in.locks == nil {
		return 0
	}
	return len(in.locks.held)
}

// lockTrack records an access by library code to shared memory.
func (in *Interp) lockTrack(o *Obj, slot *Val, write bool) {
	if !in.w.usesSync || o == nil || in.sharedMark == 0 || o.PoolOwned || in.runningPureInit {
		return
	}
	if !(o.Global || o.ID <= in.sharedMark) || !(in.inLib() || in.libDepth > 0) {
		return
	}
	ls := in.ls()
	check := func(k lockKey, w bool) {
		info := ls.cells[k]
		if info == nil {
			if !w && len(ls.cells) > 1<<20 {
				return
			}
			info = &lockInfo{set: append([]*Val(nil), ls.held...)}
			ls.cells[k] = info
		} else {
			if !w && len(info.set) > 0 {
				// a read that is ordered after the last write by an atomic
				// flag: the write was followed by a store to X, and this path
				// has loaded X (double-checked initialisation)
				for _, x := range info.pub {
					if ls.acquired[x] {
						return
					}
				}
			}
			n := 0
			for _, l := range info.set {
				for _, h := range ls.held {
					if h == l {
						info.set[n] = l
						n++
						break
					}
				}
			}
			info.set = info.set[:n]
		}
		if w {
			if !info.written && len(ls.held) > 0 {
				ls.wkeys = append(ls.wkeys, k)
			}
			info.written = true
			info.pub = nil
		}
		if info.written && len(info.set) == 0 && !info.flagged {
			info.flagged = true
			if len(ls.held) > 0 || !write {
				// a write with no lock held has been counted by noteWrite already
				in.sharedWrites++
				if len(in.writeSites) < 8 {
					wh, _ := in.libWhere()
					in.writeSites = append(in.writeSites, "no-common-lock:"+o.Site+"<-"+shortFn(wh))
				}
			}
		}
	}
	check(lockKey{o, slot}, write)
	if slot != nil {
		// a bulk write (copy, append, map update) to the object under a lock
		// conflicts with an unlocked access to one of its cells
		if info := ls.cells[lockKey{o, nil}]; info != nil && info.written {
			check(lockKey{o, nil}, false)
		}
	}
}

func init() {
	lock := func(in *Interp, a []Val) Val {
		in.lockAcquire(in.asPtr(a[0]).Slot)
		return nil
	}
	unlock := func(in *Interp, a []Val) Val {
		in.lockRelease(in.asPtr(a[0]).Slot)
		return nil
	}
	for _, n := range []string{"(*sync.Mutex).Lock", "(*sync.RWMutex).Lock", "(*sync.RWMutex).RLock"} {
		intrinsics[n] = lock
	}
	for _, n := range []string{"(*sync.Mutex).Unlock", "(*sync.RWMutex).Unlock", "(*sync.RWMutex).RUnlock"} {
		intrinsics[n] = unlock
	}
	for _, n := range []string{"(*sync.Mutex).TryLock", "(*sync.RWMutex).TryLock", "(*sync.RWMutex).TryRLock"} {
		intrinsics[n] = func(in *Interp, a []Val) Val {
			in.lockAcquire(in.asPtr(a[0]).Slot)
			return concBool(true)
		}
	}
	intrinsics["(*sync.Once).Do"] = func(in *Interp, a []Val) Val {
		o := in.asPtr(a[0]).Slot
		ls := in.ls()
		if ls.onceDone[o] {
			return nil
		}
		ls.onceDone[o] = true
		in.lockAcquire(o) // stays held: every later point of the path is ordered after f
		in.call(a[1], nil)
		return nil
	}
}

// atomicCall models sync/atomic: the functions on plain integers, and the
// methods of atomic.Value and atomic.Pointer[T]. Accesses are synchronised and
// therefore bypass the write-set monitors. handled is false for functions that
// have an SSA body built on these (atomic.Int32.Load, ...).
func (in *Interp) atomicCall(fn *ssa.Function, name string, a []Val) (res Val, handled bool) {
	if !strings.Contains(name, "sync/atomic.") {
		return nil, false
	}
	in.ls().ops++
	if len(a) > 0 {
		if p, ok := a[0].(Ptr); ok && p.Slot != nil {
			in.atomicSync(p.Slot, !strings.Contains(name[strings.LastIndex(name, ".")+1:], "Load"))
		}
	}
	if strings.HasPrefix(name, "(*sync/atomic.Value).") || strings.HasPrefix(name, "(*sync/atomic.Pointer[") {
		recv := in.asPtr(a[0]).Slot
		ls := in.ls()
		isPtr := strings.HasPrefix(name, "(*sync/atomic.Pointer[")
		zero := func() Val {
			if isPtr {
				return in.zero(fn.Signature.Results().At(0).Type())
			}
			return Iface{}
		}
		cur, ok := ls.atomics[recv]
		m := name[strings.LastIndex(name, ".")+1:]
		switch m {
		case "Load":
			if !ok {
				return zero(), true
			}
			return cur, true
		case "Store":
			ls.atomics[recv] = a[1]
			return nil, true
		case "Swap":
			ls.atomics[recv] = a[1]
			if !ok {
				return in.zero(fn.Signature.Results().At(0).Type()), true
			}
			return cur, true
		case "CompareAndSwap":
			if !ok {
				cur = in.zero(fn.Signature.Params().At(0).Type())
			}
			if in.sameRef(cur, a[1]) {
				ls.atomics[recv] = a[2]
				return concBool(true), true
			}
			return concBool(false), true
		}
		in.inconclusive("sync/atomic method without model: " + name)
	}
	if fn.Signature.Recv() != nil || fn.Blocks != nil {
		return nil, false
	}
	p := in.asPtr(a[0])
	if p.Slot == nil {
		in.libPanic("nil-deref", "atomic")
	}
	short := name[strings.LastIndex(name, ".")+1:]
	if strings.HasSuffix(short, "Pointer") {
		in.inconclusive("sync/atomic on unsafe.Pointer is not modelled: " + name)
	}
	sc := func(v Val) *Term { return in.term(v.(Sc)) }
	switch {
	case strings.HasPrefix(short, "Load"):
		return copyVal(*p.Slot), true
	case strings.HasPrefix(short, "Store"):
		store(p.Slot, a[1])
		return nil, true
	case strings.HasPrefix(short, "Swap"):
		old := copyVal(*p.Slot)
		store(p.Slot, a[1])
		return old, true
	case strings.HasPrefix(short, "Add"):
		nv := in.fromTerm(in.tt.Bin(OAdd, sc(*p.Slot), sc(a[1])))
		store(p.Slot, nv)
		return nv, true
	case strings.HasPrefix(short, "And"), strings.HasPrefix(short, "Or"):
		op := OBvAnd
		if strings.HasPrefix(short, "Or") {
			op = OBvOr
		}
		old := copyVal(*p.Slot)
		store(p.Slot, in.fromTerm(in.tt.Bin(op, sc(old), sc(a[1]))))
		return old, true
	case strings.HasPrefix(short, "CompareAndSwap"):
		eq := in.tt.Eq(sc(*p.Slot), sc(a[1]))
		if in.ex.Branch(eq) {
			store(p.Slot, a[2])
			return concBool(true), true
		}
		return concBool(false), true
	}
	in.inconclusive("sync/atomic function without model: " + name)
	return nil, true
}

// atomicSync records an atomic operation on x: the path has synchronised
// with x (acquire); a store additionally publishes every location written
// under a lock so far (release).
func (in *Interp) atomicSync(x *Val, release bool) {
	ls := in.ls()
	ls.acquired[x] = true
	if !release {
		return
	}
	for _, k := range ls.wkeys {
		info := ls.cells[k]
		if info == nil || !info.written || len(info.set) == 0 {
			continue
		}
		dup := false
		for _, p := range info.pub {
			dup = dup || p == x
		}
		if !dup {
			info.pub = append(info.pub, x)
		}
	}
}

// sameRef compares two values for identity the way == on interfaces holding
// pointers or scalars does (used by CompareAndSwap on atomic.Value/Pointer).
func (in *Interp) sameRef(x, y Val) bool {
	switch xv := x.(type) {
	case Ptr:
		yv, ok := y.(Ptr)
		return ok && xv.Slot == yv.Slot
	case Iface:
		yv, ok := y.(Iface)
		if !ok {
			return false
		}
		if xv.T == nil || yv.T == nil {
			return xv.T == nil && yv.T == nil
		}
		return types.Identical(xv.T, yv.T) && in.sameRef(xv.V, yv.V)
	case Sc:
		yv, ok := y.(Sc)
		return ok && xv.T == nil && yv.T == nil && xv.C == yv.C
	case nil:
		return y == nil
	}
	in.inconclusive(fmt.Sprintf("CompareAndSwap on %T is not modelled", x))
	return false
}
