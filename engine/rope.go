package main

// Strings produced by fmt with symbolic arguments: ropes.

import (
	"fmt"
	"go/types"
	"strconv"
	"strings"
	"time"
)

func litPiece(s string) Piece { return Piece{Lit: strOf(s).B} }

func (s Str) pieces() []Piece {
	if s.R != nil {
		return s.R
	}
	if len(s.B) == 0 {
		return nil
	}
	return []Piece{{Lit: s.B}}
}

// mkStr normalises a piece list: opaque pieces with concrete arguments are
// rendered, adjacent literal pieces are merged, and a list without opaque
// pieces becomes a flat string.
func mkStr(ps []Piece) Str {
	var out []Piece
	opaque := false
	for _, p := range ps {
		if p.Op != nil {
			conc := true
			for _, a := range p.Op.Args {
				if a.T != nil {
					conc = false
					break
				}
			}
			if conc {
				vals := make([]uint64, len(p.Op.Args))
				for i, a := range p.Op.Args {
					vals[i] = a.C
				}
				p = litPiece(renderOpaque(p.Op, vals))
			}
		}
		if p.Op == nil {
			if len(p.Lit) == 0 {
				continue
			}
			if n := len(out); n > 0 && out[n-1].Op == nil {
				merged := make([]Sc, 0, len(out[n-1].Lit)+len(p.Lit))
				merged = append(append(merged, out[n-1].Lit...), p.Lit...)
				out[n-1] = Piece{Lit: merged}
				continue
			}
			out = append(out, p)
			continue
		}
		opaque = true
		out = append(out, p)
	}
	if !opaque {
		if len(out) == 0 {
			return Str{}
		}
		return Str{B: out[0].Lit}
	}
	return Str{R: out}
}

func ropeConcat(a, b Str) Str {
	if a.R == nil && b.R == nil {
		if len(a.B) == 0 {
			return b
		}
		if len(b.B) == 0 {
			return a
		}
		m := make([]Sc, 0, len(a.B)+len(b.B))
		return Str{B: append(append(m, a.B...), b.B...)}
	}
	return mkStr(append(append([]Piece{}, a.pieces()...), b.pieces()...))
}

// flat returns s as a flat byte string or ends the path as inconclusive.
func (in *Interp) flat(s Str) Str {
	if s.R == nil {
		return s
	}
	var out []Sc
	for _, p := range s.R {
		if p.Op == nil {
			out = append(out, p.Lit...)
			continue
		}
		b, ok := in.expandOpaque(p.Op)
		if !ok {
			panic(pathEnd{"inconclusive", "length or content of a formatted string with symbolic arguments is needed (" + p.Op.Verb + " of " + p.Op.Kind + ")"})
		}
		out = append(out, b...)
	}
	return Str{B: out}
}

// expandOpaque turns the decimal rendering of a symbolic integer (or the
// %v / %t rendering of a symbolic bool) into bytes: the number of digits is
// decided by branching on the value's range, each digit is a term.
func (in *Interp) expandOpaque(op *Opaque) ([]Sc, bool) {
	if op.Kind == "substr" && len(op.Args) == 2 {
		// a slice of a constant string at symbolic bounds (an entry of a
		// name table): one path per entry
		tl, th := in.term(op.Args[0]), in.term(op.Args[1])
		aux := strOf(op.Aux).B
		if len(aux) >= 2 && len(aux) <= 256 {
			// the length is concretised (few values), each byte is an
			// if-then-else chain over the symbolic start
			in.ex.NarrowOnce = true
			n := int(in.ex.Concretize(in.tt.Bin(OSub, th, tl)))
			in.ex.NarrowOnce = false
			if n < 0 || n > len(aux) {
				return nil, false
			}
			out := make([]Sc, n)
			for j := range out {
				out[j] = in.byteAt(aux, in.tt.Bin(OAdd, tl, in.tt.Const(64, uint64(j))))
			}
			return out, true
		}
		// (which entry of the name table is rendered into bytes is, like the
		// layout of a number, not explored: one alternative)
		in.ex.NarrowOnce = true
		lo := int(in.ex.Concretize(tl))
		in.ex.NarrowOnce = true
		hi := int(in.ex.Concretize(th))
		in.ex.NarrowOnce = false
		if lo < 0 || hi > len(op.Aux) || lo > hi {
			return nil, false
		}
		return strOf(op.Aux[lo:hi]).B, true
	}
	if len(op.Args) != 1 || (op.Verb != "%v" && op.Verb != "%d" && !(op.Verb == "%t" && op.Kind == "bool")) {
		return nil, false
	}
	if op.Kind == "duration" && op.Verb == "%v" {
		// time.Duration.String from its real code, as number formatting
		if tp := in.w.prog.ImportedPackage("time"); tp != nil {
			if fn := in.w.prog.LookupMethod(tp.Type("Duration").Type(), tp.Pkg, "String"); fn != nil && fn.Blocks != nil {
				in.fmtDepth++
				r := in.callFunction(fn, []Val{op.Args[0]}, nil)
				in.fmtDepth--
				if s, ok := r.(Str); ok && s.R == nil {
					return s.B, true
				}
			}
		}
		return nil, false
	}
	tt := in.tt
	v := in.term(op.Args[0])
	signed := false
	switch op.Kind {
	case "bool":
		if in.ex.Branch(tt.Eq(v, tt.Const(v.W, 0))) {
			return strOf("false").B, true
		}
		return strOf("true").B, true
	case "uint8", "uint16", "uint32", "uint64", "uint", "uintptr":
	case "int8", "int16", "int32", "int64", "int":
		signed = true
	default:
		return nil, false
	}
	var out []Sc
	if signed && in.ex.Branch(tt.Cmp(OSlt, v, tt.Const(v.W, 0))) {
		out = append(out, Sc{W: 8, C: '-'})
		v = tt.Un(OBvNeg, v)
	}
	// number of digits (as for strconv: the layout of a number is not
	// explored, one alternative is kept)
	nd := 1
	pow := uint64(10)
	for ; nd < 20; nd++ {
		if v.W < 64 && pow >= 1<<uint(v.W) {
			break
		}
		in.ex.NarrowOnce = true
		in.fmtForks++
		lt := in.ex.Branch(tt.Cmp(OUlt, v, tt.Const(v.W, pow)))
		in.ex.NarrowOnce = false
		if lt {
			break
		}
		if pow > (1<<63)/5 {
			nd++
			break
		}
		pow *= 10
	}
	digits := make([]Sc, nd)
	div := uint64(1)
	for i := nd - 1; i >= 0; i-- {
		d := tt.Bin(OURem, tt.Bin(OUDiv, v, tt.Const(v.W, div)), tt.Const(v.W, 10))
		ch := tt.Bin(OAdd, tt.Extract(7, 0, d), tt.Const(8, '0'))
		digits[i] = in.fromTerm(ch)
		if i > 0 {
			div *= 10
		}
	}
	return append(out, digits...), true
}

// ropeEqual compares two strings piece by piece. ok=false: the structures
// differ, so (in)equality cannot be expressed.
func (in *Interp) ropeEqual(x, y Str) (*Term, bool) {
	xp, yp := x.pieces(), y.pieces()
	if len(xp) != len(yp) {
		return nil, false
	}
	r := in.tt.Bool(true)
	for i := range xp {
		a, b := xp[i], yp[i]
		if (a.Op == nil) != (b.Op == nil) {
			return nil, false
		}
		if a.Op == nil {
			if len(a.Lit) != len(b.Lit) {
				return nil, false
			}
			for j := range a.Lit {
				r = in.tt.And(r, in.tt.Eq(in.term(a.Lit[j]), in.term(b.Lit[j])))
			}
			continue
		}
		if a.Op.Verb != b.Op.Verb || a.Op.Kind != b.Op.Kind || a.Op.Aux != b.Op.Aux || len(a.Op.Args) != len(b.Op.Args) {
			return nil, false
		}
		for j := range a.Op.Args {
			r = in.tt.And(r, in.tt.Eq(in.term(a.Op.Args[j]), in.term(b.Op.Args[j])))
		}
	}
	return r, true
}

func sx(v uint64, w int) int64 { return sext(v, w) }

// renderOpaque calls the real fmt on a value of the recorded Go kind.
func renderOpaque(op *Opaque, v []uint64) string {
	var val interface{}
	switch op.Kind {
	case "bool":
		val = v[0] != 0
	case "uint8":
		val = uint8(v[0])
	case "uint16":
		val = uint16(v[0])
	case "uint32":
		val = uint32(v[0])
	case "uint64":
		val = uint64(v[0])
	case "uint":
		val = uint(v[0])
	case "uintptr":
		val = uintptr(v[0])
	case "int8":
		val = int8(v[0])
	case "int16":
		val = int16(v[0])
	case "int32":
		val = int32(v[0])
	case "int64":
		val = int64(v[0])
	case "int":
		val = int(v[0])
	case "duration":
		val = time.Duration(int64(v[0]))
	case "string":
		b := make([]byte, len(v))
		for i := range v {
			b[i] = byte(v[i])
		}
		val = string(b)
	case "[]uint8":
		b := make([]byte, len(v))
		for i := range v {
			b[i] = byte(v[i])
		}
		val = b
	case "[]uint16":
		b := make([]uint16, len(v))
		for i := range v {
			b[i] = uint16(v[i])
		}
		val = b
	case "[]uint32":
		b := make([]uint32, len(v))
		for i := range v {
			b[i] = uint32(v[i])
		}
		val = b
	case "[]uint64":
		b := make([]uint64, len(v))
		for i := range v {
			b[i] = uint64(v[i])
		}
		val = b
	case "[]int":
		b := make([]int, len(v))
		for i := range v {
			b[i] = int(v[i])
		}
		val = b
	case "[]int32":
		b := make([]int32, len(v))
		for i := range v {
			b[i] = int32(v[i])
		}
		val = b
	case "substr":
		lo, hi := int(v[0]), int(v[1])
		if lo < 0 || hi > len(op.Aux) || lo > hi {
			return "<bad substr>"
		}
		return op.Aux[lo:hi]
	default:
		return "<opaque " + op.Kind + ">"
	}
	return fmt.Sprintf(op.Verb, val)
}

// renderStr renders a string under a model.
func renderStr(s Str, model map[string]uint64) string {
	memo := map[int]uint64{}
	ev := func(c Sc) uint64 {
		if c.T == nil {
			return c.C
		}
		return Eval(c.T, model, memo)
	}
	var sb strings.Builder
	for _, p := range s.pieces() {
		if p.Op == nil {
			for _, c := range p.Lit {
				sb.WriteByte(byte(ev(c)))
			}
			continue
		}
		vals := make([]uint64, len(p.Op.Args))
		for i, a := range p.Op.Args {
			vals[i] = ev(a)
		}
		sb.WriteString(renderOpaque(p.Op, vals))
	}
	return sb.String()
}

func basicKindName(t types.Type) string {
	if b, ok := t.Underlying().(*types.Basic); ok {
		switch b.Kind() {
		case types.Bool, types.UntypedBool:
			return "bool"
		case types.Int, types.UntypedInt:
			return "int"
		case types.Int8:
			return "int8"
		case types.Int16:
			return "int16"
		case types.Int32, types.UntypedRune:
			return "int32"
		case types.Int64:
			return "int64"
		case types.Uint:
			return "uint"
		case types.Uint8:
			return "uint8"
		case types.Uint16:
			return "uint16"
		case types.Uint32:
			return "uint32"
		case types.Uint64:
			return "uint64"
		case types.Uintptr:
			return "uintptr"
		}
	}
	return ""
}

func isDuration(t types.Type) bool {
	n, ok := t.(*types.Named)
	return ok && n.Obj().Pkg() != nil && n.Obj().Pkg().Path() == "time" && n.Obj().Name() == "Duration"
}

// methodOf finds a niladic method returning string on the dynamic type.
func (in *Interp) stringMethod(t types.Type, name string) bool {
	ms := in.w.prog.MethodSets.MethodSet(t)
	for i := 0; i < ms.Len(); i++ {
		sel := ms.At(i)
		if sel.Obj().Name() != name {
			continue
		}
		sig := sel.Type().(*types.Signature)
		if sig.Params().Len() == 0 && sig.Results().Len() == 1 && isString(sig.Results().At(0).Type()) {
			return true
		}
	}
	return false
}

// callStringMethod calls Error()/String() the way fmt does: a panic inside the
// method is recovered by fmt and rendered as text, it does not propagate.
func (in *Interp) callStringMethod(ifc Iface, name string) (res Str) {
	depth := len(in.stack)
	defer func() {
		if r := recover(); r != nil {
			pe, ok := r.(pathEnd)
			if !ok || pe.kind != "panic" {
				panic(r)
			}
			in.stack = in.stack[:depth]
			in.orderDev = true // the exact text is not modelled: no native comparison
			res = strOf("%!v(PANIC=" + name + " method: " + pe.msg + ")")
		}
	}()
	ms := in.w.prog.MethodSets.MethodSet(ifc.T)
	for i := 0; i < ms.Len(); i++ {
		sel := ms.At(i)
		if sel.Obj().Name() == name {
			fn := in.w.prog.MethodValue(sel)
			r := in.callFunction(fn, []Val{ifc.V}, nil)
			return r.(Str)
		}
	}
	panic("callStringMethod")
}

// fmtArg formats one operand with one verb (including flags), as fmt would.
// Returns the pieces and, for %w, nothing special (the caller records it).
func (in *Interp) fmtArg(verb string, arg Val) []Piece {
	v := verb[len(verb)-1]
	if v == 'w' {
		verb = verb[:len(verb)-1] + "v"
		v = 'v'
	}
	ifc, _ := arg.(Iface)
	if ifc.T == nil {
		return []Piece{litPiece(fmt.Sprintf(verb, nil))}
	}
	if v == 'T' {
		return []Piece{litPiece(fmt.Sprintf(strings.Replace(verb, "T", "s", 1), typeString(ifc.T)))}
	}
	// engine errors, error and Stringer methods
	if v == 'v' || v == 's' || v == 'q' || v == 'x' || v == 'X' {
		var s Str
		has := false
		if ev, ok := ifc.V.(*ErrV); ok {
			s, has = ev.Msg, true
		} else if isDuration(ifc.T) {
			if sc, ok := ifc.V.(Sc); ok {
				return []Piece{{Op: &Opaque{Verb: verb, Kind: "duration", Args: []Sc{sc}}}}
			}
		} else if in.stringMethod(ifc.T, "Error") {
			if p, ok := ifc.V.(Ptr); ok && p.Slot == nil {
				return []Piece{litPiece("<nil>")}
			}
			s, has = in.callStringMethod(ifc, "Error"), true
		} else if in.stringMethod(ifc.T, "String") {
			if p, ok := ifc.V.(Ptr); ok && p.Slot == nil {
				return []Piece{litPiece("<nil>")}
			}
			s, has = in.callStringMethod(ifc, "String"), true
		}
		if has {
			return in.fmtString(verb, s)
		}
	}
	switch x := ifc.V.(type) {
	case Sc:
		k := basicKindName(ifc.T)
		if k == "" {
			in.inconclusive("fmt of scalar type " + ifc.T.String())
		}
		return []Piece{{Op: &Opaque{Verb: verb, Kind: k, Args: []Sc{x}}}}
	case Str:
		return in.fmtString(verb, x)
	case Slice:
		st, ok := ifc.T.Underlying().(*types.Slice)
		if !ok {
			break
		}
		ek := basicKindName(st.Elem())
		if ek == "" {
			break
		}
		args := make([]Sc, x.Len)
		for i := 0; i < x.Len; i++ {
			args[i] = x.Obj.Cells[x.Off+i].(Sc)
		}
		if ek == "uint8" && verb == "%s" {
			return []Piece{{Lit: args}}
		}
		if x.Obj == nil && (ek != "uint8" || v != 's') {
			// nil and empty slices print alike with %v, but keep the real thing
			return []Piece{litPiece(fmt.Sprintf(verb, nilSliceOf(ek)))}
		}
		return []Piece{{Op: &Opaque{Verb: verb, Kind: "[]" + ek, Args: args}}}
	}
	in.inconclusive(fmt.Sprintf("fmt %s of %s (%T)", verb, ifc.T, ifc.V))
	return nil
}

func nilSliceOf(ek string) interface{} {
	switch ek {
	case "uint8":
		return []byte(nil)
	case "uint16":
		return []uint16(nil)
	case "uint32":
		return []uint32(nil)
	case "uint64":
		return []uint64(nil)
	case "int":
		return []int(nil)
	case "int32":
		return []int32(nil)
	}
	return nil
}

func typeString(t types.Type) string {
	return types.TypeString(t, func(p *types.Package) string { return p.Name() })
}

func (in *Interp) fmtString(verb string, s Str) []Piece {
	if verb == "%s" || verb == "%v" {
		return s.pieces()
	}
	if s.R != nil {
		in.inconclusive("fmt " + verb + " of a formatted string")
	}
	return []Piece{{Op: &Opaque{Verb: verb, Kind: "string", Args: s.B}}}
}

// sprintf implements fmt.Sprintf on engine values. Returns the string and the
// operand of %w if any.
func (in *Interp) sprintf(format string, args []Val) (Str, Val) {
	var ps []Piece
	var wrapped Val
	ai := 0
	i := 0
	lit := strings.Builder{}
	flushLit := func() {
		if lit.Len() > 0 {
			ps = append(ps, litPiece(lit.String()))
			lit.Reset()
		}
	}
	for i < len(format) {
		c := format[i]
		if c != '%' {
			lit.WriteByte(c)
			i++
			continue
		}
		j := i + 1
		for j < len(format) && strings.IndexByte("+-# 0123456789.", format[j]) >= 0 {
			j++
		}
		if j >= len(format) {
			lit.WriteString("%!(NOVERB)")
			break
		}
		verb := format[i : j+1]
		i = j + 1
		if format[j] == '%' {
			lit.WriteByte('%')
			continue
		}
		if strings.ContainsAny(verb, "*[") {
			in.inconclusive("fmt verb " + verb)
		}
		if ai >= len(args) {
			lit.WriteString("%!" + string(format[j]) + "(MISSING)")
			continue
		}
		flushLit()
		if format[j] == 'w' {
			wrapped = args[ai]
		}
		ps = append(ps, in.fmtArg(verb, args[ai])...)
		ai++
	}
	flushLit()
	if ai < len(args) {
		in.inconclusive("fmt: extra operands for " + strconv.Quote(format))
	}
	return mkStr(ps), wrapped
}

func sliceVals(v Val) []Val {
	s, ok := v.(Slice)
	if !ok || s.Obj == nil {
		return nil
	}
	return s.Obj.Cells[s.Off : s.Off+s.Len]
}

// sprintln implements fmt.Sprintln.
func (in *Interp) sprintln(args []Val) Str {
	var ps []Piece
	for i, a := range args {
		if i > 0 {
			ps = append(ps, litPiece(" "))
		}
		ps = append(ps, in.fmtArg("%v", a)...)
	}
	ps = append(ps, litPiece("\n"))
	return mkStr(ps)
}

// ---- rope queries used by harnesses

// strHasLit reports whether lit occurs in the literal (format-derived or
// concrete) text of s. Symbolic bytes and opaque pieces never match; the
// harness constrains contents so that they cannot produce lit.
func strHasLit(s Str, lit string) bool {
	var sb strings.Builder
	for _, p := range s.pieces() {
		if p.Op != nil {
			sb.WriteByte(0)
			continue
		}
		for _, c := range p.Lit {
			if c.T != nil {
				sb.WriteByte(0)
			} else {
				sb.WriteByte(byte(c.C))
			}
		}
	}
	return strings.Contains(sb.String(), lit)
}

// strIntBefore finds the first occurrence of lit in the literal text of s and
// returns the integer rendered immediately before it.
func (in *Interp) strIntBefore(s Str, lit string) (Sc, bool) {
	ps := s.pieces()
	for i, p := range ps {
		if p.Op != nil {
			continue
		}
		var sb strings.Builder
		for _, c := range p.Lit {
			if c.T != nil {
				sb.WriteByte(0)
			} else {
				sb.WriteByte(byte(c.C))
			}
		}
		txt := sb.String()
		k := strings.Index(txt, lit)
		if k < 0 {
			continue
		}
		if k == 0 {
			if i > 0 && ps[i-1].Op != nil && len(ps[i-1].Op.Args) == 1 && strings.HasPrefix(ps[i-1].Op.Kind, "int") || (i > 0 && ps[i-1].Op != nil && len(ps[i-1].Op.Args) == 1 && strings.HasPrefix(ps[i-1].Op.Kind, "uint")) {
				a := ps[i-1].Op.Args[0]
				t := in.term(a)
				if t.W < 64 {
					if strings.HasPrefix(ps[i-1].Op.Kind, "int") {
						t = in.tt.SExt(t, 64)
					} else {
						t = in.tt.ZExt(t, 64)
					}
				}
				return in.fromTerm(t), true
			}
			return Sc{}, false
		}
		// digits directly before lit in the same literal piece
		j := k
		for j > 0 && txt[j-1] >= '0' && txt[j-1] <= '9' {
			j--
		}
		if j == k {
			return Sc{}, false
		}
		n, _ := strconv.ParseInt(txt[j:k], 10, 64)
		return concInt(64, uint64(n)), true
	}
	return Sc{}, false
}
