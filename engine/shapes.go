package main

// Shapes: the concrete part of generated packets (mirrors zzShape in
// harness/model.go). Every value and content byte stays symbolic.

type Sh struct {
	Typ, Mask, Order, Slen, NUser, NList, Will, Cred, Qos, Form, Nz, Fld, Flen, Big, Proto int
}

func (s Sh) Args() []int {
	return []int{s.Typ, s.Mask, s.Order, s.Slen, s.NUser, s.NList, s.Will, s.Cred, s.Qos, s.Form, s.Nz, s.Fld, s.Flen, s.Big, s.Proto}
}

var typeNames = []string{"Undefined", "Connect", "ConnAck", "Publish", "PubAck", "PubRec", "PubRel", "PubComp",
	"Subscribe", "SubAck", "Unsubscribe", "UnsubAck", "PingReq", "PingResp", "Disconnect", "Auth"}

// nProps: number of properties (other than user property) per context, as in
// zzPropList.
func nProps(typ int) int {
	switch typ {
	case 1:
		return 8
	case 2:
		return 16
	case 3:
		return 6
	case 4, 5, 6, 7, 9, 11, 8:
		return 1
	case 14, 15:
		return 3
	case 16:
		return 6
	}
	return 0
}

// apiProps: the properties that can be set through the public API (C01
// domain). DISCONNECT has no setters for its three properties.
func apiMask(typ int) int {
	return 1<<uint(nProps(typ)) - 1
}

func hasList(typ int) bool { return typ >= 8 && typ <= 11 }

// maxStrFields: upper bound of the number of string/binary fields a shape of
// this type generates (for the one-field-at-a-boundary-length jobs).
func maxStrFields(typ int) int {
	switch typ {
	case 1:
		return 18
	case 2:
		return 10
	case 3:
		return 8
	case 8, 10:
		return 6
	case 12, 13:
		return 0
	}
	return 4
}

var boundaryLens = []int{127, 128, 16383, 16384, 65534, 65535}

// bigFieldShapes: every string / binary field of the type in turn at 65 534
// and 65 535 bytes (thorough: also around 32 768 and 16 384), all other
// fields present with concrete values.
func bigFieldShapes(typ int, thorough bool) []Sh {
	if typ == 12 || typ == 13 {
		return nil
	}
	lens := []int{65534, 65535}
	if thorough {
		lens = []int{255, 256, 16383, 16384, 32767, 32768, 65533, 65534, 65535}
	}
	rich := Sh{Typ: typ, Slen: 1, Mask: 1<<uint(nProps(typ)) - 1, NUser: 1, Nz: 3}
	if typ == 1 {
		rich.Will, rich.Cred = 1|(1<<6-1)<<1, 3
	}
	if hasList(typ) {
		rich.NList = 2
	}
	if typ == 3 {
		rich.NList = 1
	}
	var out []Sh
	for f := 1; f <= maxStrFields(typ); f++ {
		for _, l := range lens {
			s := rich
			s.Fld, s.Flen = f, l
			out = append(out, s)
		}
	}
	return out
}

// apiShapes: packets constructible through the public API, for C01, C02,
// C10, C11, C13. wellFormed restricts to MQTT-well-formed packets (C02).
func apiShapes(typ int, thorough, wellFormed bool) []Sh {
	var out []Sh
	all := apiMask(typ)
	nl := 0
	if hasList(typ) {
		nl = 1
	}
	base := Sh{Typ: typ, NList: nl, Slen: 1}
	if typ == 12 || typ == 13 {
		return []Sh{base}
	}
	minList := 0
	if wellFormed {
		minList = nl
	}
	// minimal, with strings absent (length 0) and of length 1 and 2
	for _, sl := range []int{0, 1, 2} {
		s := base
		s.Slen = sl
		s.NList = max(minList, nl)
		out = append(out, s)
	}
	_ = minList
	// everything present: scalars assumed non-zero (one path), two user properties
	s := base
	s.Mask, s.NUser, s.Nz = all, 2, 1
	if hasList(typ) {
		s.NList = 3
	}
	if typ == 1 {
		s.Will = 1 | (1<<6-1)<<1
		s.Cred = 3
	}
	if typ == 3 {
		s.Qos, s.NList = 1, 2
	}
	out = append(out, s)
	// every single property alone, value free (zero included: presence forks)
	for i := 0; i < nProps(typ) && all != 0; i++ {
		s := base
		s.Mask = 1 << uint(i)
		if typ == 3 && i == 5 && wellFormed {
			s.Nz = 2 // topic alias must not be 0
		}
		out = append(out, s)
	}
	// scalar presence subsets by forking: all properties, values free
	if all != 0 {
		s := base
		s.Mask = all
		if typ == 1 || typ == 2 {
			if thorough {
				out = append(out, s)
			} else {
				// quick: two halves of the property list
				h := nProps(typ) / 2
				s1, s2 := s, s
				s1.Mask = 1<<uint(h) - 1
				s2.Mask = all &^ s1.Mask
				out = append(out, s1, s2)
			}
		} else {
			out = append(out, s)
		}
	}
	switch typ {
	case 1:
		for _, w := range []int{0, 1} {
			for _, c := range []int{0, 1, 2, 3} {
				s := base
				s.Will, s.Cred = w, c
				if w == 1 {
					s.Will = 1 | (1<<6-1)<<1
					s.Nz = 1
				}
				out = append(out, s)
			}
		}
		// will properties: each alone, free values; will with user properties
		for i := 0; i < 6; i++ {
			s := base
			s.Will = 1 | 1<<uint(i+1)
			out = append(out, s)
		}
		s := base
		s.Will, s.NUser = 1, 2
		out = append(out, s)
		if thorough {
			s := base
			s.Will = 1 | (1<<6-1)<<1
			out = append(out, s)
		}
		// protocol name and version set through the API (C01 only: C02 is
		// about packets that keep the defaults)
		if !wellFormed {
			for _, pl := range []int{0, 1, 4, 6} {
				s := base
				s.Proto = pl + 1
				out = append(out, s)
				s.Will, s.Cred, s.Nz = 1|(1<<6-1)<<1, 3, 1
				out = append(out, s)
			}
		}
	case 3:
		for q := 0; q <= 2; q++ {
			for _, nsub := range []int{0, 1, 3} {
				s := base
				s.Qos, s.NList = q, nsub
				out = append(out, s)
			}
		}
		// topic alias instead of a topic name
		s := base
		s.Slen, s.Mask, s.Nz = 0, 1<<5, 2
		out = append(out, s)
		for _, big := range []int{100, 200, 20000} {
			s := base
			s.Big = big
			out = append(out, s)
		}
		if thorough {
			s := base
			s.Big = 2097152 + 10
			out = append(out, s)
		}
	case 8, 9, 10, 11:
		for _, n := range []int{2, 3} {
			s := base
			s.NList = n
			out = append(out, s)
			if (typ == 8 || typ == 10) && !wellFormed {
				// empty-but-present filters in second position
				s.Form = 3
				out = append(out, s)
			}
		}
	}
	for _, nu := range []int{1, 2} {
		s := base
		s.NUser = nu
		out = append(out, s)
		// user properties with an empty value
		s.Slen = 0
		out = append(out, s)
	}
	// every string long: property sections of 16 384 bytes and more
	// (three-byte property length), remaining length in its three-byte form
	if nProps(typ) >= 2 && typ != 8 {
		s := base
		s.Mask, s.Nz, s.Slen = all, 1, 8200
		if typ == 3 {
			s.Qos, s.NList = 1, 2
		}
		out = append(out, s)
	}
	// one string field at a boundary length
	lens := []int{127, 128, 65535}
	if thorough {
		lens = boundaryLens
	}
	rich := base
	rich.Mask, rich.NUser, rich.Nz = all, 1, 1
	if typ == 1 {
		rich.Will, rich.Cred = 1|(1<<6-1)<<1, 3
	}
	if hasList(typ) {
		rich.NList = 2
	}
	for f := 1; f <= maxStrFields(typ); f++ {
		for _, l := range lens {
			s := rich
			s.Fld, s.Flen = f, l
			out = append(out, s)
		}
	}
	return out
}

// wireShapes: valid frames produced by the reference encoder (the valid-frame
// language, not only what the library emits): property orders, explicit
// zero-valued properties, short forms, DISCONNECT properties.
func wireShapes(typ int, thorough bool) []Sh {
	var out []Sh
	all := 1<<uint(nProps(typ)) - 1
	nl := 0
	if hasList(typ) {
		nl = 1
	}
	base := Sh{Typ: typ, NList: nl, Slen: 1, Nz: 2}
	if typ == 12 || typ == 13 {
		return []Sh{base}
	}
	out = append(out, base)
	s0 := base
	s0.Slen = 0
	out = append(out, s0)
	orders := []int{0, 1, 3}
	if thorough {
		orders = []int{0, 1, 2, 3, 4, 6}
	}
	for _, o := range orders {
		s := base
		s.Mask, s.Order, s.NUser = all, o, 1
		if hasList(typ) {
			s.NList = 2
		}
		if typ == 1 {
			s.Will, s.Cred = 1|(1<<6-1)<<1, 3
		}
		if typ == 3 {
			s.Qos, s.NList = 1, 2
		}
		out = append(out, s)
	}
	for i := 0; i < nProps(typ); i++ {
		s := base
		s.Mask = 1 << uint(i)
		out = append(out, s)
	}
	switch typ {
	case 4, 5, 6, 7, 14, 15:
		for _, f := range []int{1, 2} {
			if typ == 15 && f == 1 {
				continue
			}
			s := base
			s.Form = f
			out = append(out, s)
		}
	case 1:
		for _, w := range []int{0, 1} {
			for _, c := range []int{0, 1, 2, 3} {
				s := base
				s.Will, s.Cred = w, c
				out = append(out, s)
			}
		}
		for i := 0; i < 6; i++ {
			s := base
			s.Will = 1 | 1<<uint(i+1)
			out = append(out, s)
		}
		s := base
		s.Will, s.NUser, s.Order = 1|(1<<6-1)<<1, 1, 1
		out = append(out, s)
		// user name / password flag set with an empty value (legal in v5.0;
		// the library's own encoder never produces it)
		for _, c := range []int{1, 2, 3} {
			s := base
			s.Slen, s.Cred, s.Form = 0, c, 1
			out = append(out, s)
			s.Will = 1
			out = append(out, s)
		}
	case 3:
		for q := 0; q <= 2; q++ {
			s := base
			s.Qos, s.NList = q, q
			out = append(out, s)
		}
		s := base
		s.Slen, s.Mask = 0, 1<<5
		out = append(out, s)
		for _, big := range []int{100, 200, 20000} {
			s := base
			s.Big = big
			out = append(out, s)
		}
	case 8, 9, 10, 11:
		s := base
		s.NList = 3
		out = append(out, s)
	}
	// multi-byte property length: >= 128 bytes of properties
	{
		s := base
		s.NUser, s.Slen = 2, 40
		out = append(out, s)
	}
	// user properties with an empty value
	for _, nu := range []int{1, 2} {
		s := base
		s.NUser, s.Slen = nu, 0
		out = append(out, s)
	}
	// three-byte property length, in three property orders
	if nProps(typ) >= 2 && typ != 8 {
		for _, o := range []int{0, 1, 2} {
			s := base
			s.Mask, s.Slen, s.Order = all, 8200, o
			if typ == 3 {
				s.Qos, s.NList = 1, 2
			}
			out = append(out, s)
		}
	}
	lens := []int{127, 128, 65535}
	if thorough {
		lens = boundaryLens
	}
	rich := base
	rich.Mask, rich.NUser = all, 1
	if typ == 1 {
		rich.Will, rich.Cred = 1|(1<<6-1)<<1, 3
	}
	if hasList(typ) {
		rich.NList = 2
	}
	for f := 1; f <= maxStrFields(typ); f++ {
		for _, l := range lens {
			s := rich
			s.Fld, s.Flen = f, l
			out = append(out, s)
		}
	}
	return out
}

// smallWireShapes: a few small valid frames per type for the reader /
// fragmentation / aliasing jobs where each frame is multiplied by schedules.
func smallWireShapes(typ int, thorough bool) []Sh {
	nl := 0
	if hasList(typ) {
		nl = 1
	}
	base := Sh{Typ: typ, NList: nl, Slen: 1, Nz: 2}
	if typ == 12 || typ == 13 {
		return []Sh{base}
	}
	out := []Sh{base}
	s := base
	s.Mask, s.NUser = 1, 1
	if typ == 1 {
		s.Will, s.Cred = 1|1<<1, 3
	}
	if typ == 3 {
		s.Qos = 1
	}
	out = append(out, s)
	if thorough {
		s := base
		s.Mask, s.NUser = 1<<uint(nProps(typ))-1, 1
		if hasList(typ) {
			s.NList = 2
		}
		out = append(out, s)
	}
	switch typ {
	case 4, 5, 6, 7, 14, 15:
		s := base
		s.Form = 2
		out = append(out, s)
	}
	return out
}
