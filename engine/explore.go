package main

import (
	"fmt"
	"os"
	"strings"
)

var qlog = os.Getenv("VERIF_QLOG") != ""

// termStr prints a term as an s-expression down to the given depth.
func termStr(t *Term, depth int) string {
	switch t.Op {
	case OConst:
		return constStr(t)
	case OVar:
		return t.Name
	}
	if depth == 0 {
		return "…"
	}
	var as []string
	for _, a := range t.Args {
		as = append(as, termStr(a, depth-1))
	}
	name := opNames[t.Op]
	switch t.Op {
	case OExtract:
		name = fmt.Sprintf("extract[%d:%d]", t.C>>8, t.C&0xff)
	case OZExt:
		name = fmt.Sprintf("zext%d", t.W)
	case OSExt:
		name = fmt.Sprintf("sext%d", t.W)
	}
	return "(" + name + " " + strings.Join(as, " ") + ")"
}

// Decision records one point where execution depended on something that is
// not determined by the concrete part of the state: a symbolic branch, a
// symbolic map key, the concretisation of a symbolic size or index, a map
// iteration order, or a failed assertion that is assumed from there on.
type Decision struct {
	kind     string
	nAlts    int
	feasible []int // indices of feasible alternatives (in exploration order)
	pos      int   // index into feasible currently taken
	values   []uint64
	models   []map[string]uint64 // model witnessing feasibility of feasible[i] (may be nil)
	term     *Term               // assertfail: the asserted condition
}

// PrefixStep is one forced decision of a sub-job created by splitting.
type PrefixStep struct {
	Kind  string
	NAlts int
	Alt   int
	Value uint64
}

// pathEnd is thrown (via panic) to end the current path.
type pathEnd struct {
	kind string // ok, assume, panic, budget, assertfalse, split, inconclusive, harness
	msg  string
}

type ExStats struct {
	Paths, MaxDepth               int
	ModelHits, Syntactic          int
	Decisions                     int
	XChecked, XDisagree, XUnknown int
	ModelChecks                   int
	FanoutCapHits                 int
	Fallbacks                     int
	Narrowed                      int // decisions at which only one alternative was kept (see Explorer.Narrow)
}

type Explorer struct {
	tt      *TermTable
	solver  *Solver
	xsolver *Solver // cross-checking solver (may be nil)
	xEvery  int     // cross-check every n-th unsat answer (1 = all, 0 = none)
	xCount  int

	decisions []*Decision // current prefix
	cursor    int         // next decision index during execution
	pc        []*Term     // constraints of the decisions passed so far in this run
	pcSet     map[*Term]bool
	known     map[*Term]uint64 // terms whose value is fixed by the path condition

	model map[string]uint64 // a model of the current path condition, or nil

	splitDepth  int // >0: end paths that need a new decision at this depth and record the prefix
	prefixes    [][]PrefixStep
	prefixLen   int  // forced decisions at the bottom of the stack (sub-job)
	prefixFresh bool // the last prefix step is an alternative nobody explored yet (work stealing)

	FanoutCap int
	// Narrow: keep one alternative (the one the current model satisfies) at
	// every new decision instead of all feasible ones. Set by the runner once a
	// job has produced more paths than its cap, and by the interpreter for
	// single decisions inside number-formatting code: the exploration turns
	// from exhaustive into one solver-chosen path per open prefix, and the
	// number of such decisions is reported as a reduced bound.
	Narrow     bool
	NarrowOnce bool
	xValid     int  // number of levels of the second solver's stack that match the current decision prefix
	noFork     bool // set during predicated execution: any need to fork aborts it
	St         ExStats
	inconc     []string
}

func NewExplorer(tt *TermTable, s, xs *Solver, xEvery int) *Explorer {
	return &Explorer{tt: tt, solver: s, xsolver: xs, xEvery: xEvery, FanoutCap: 4096, pcSet: map[*Term]bool{}, known: map[*Term]uint64{}}
}

// LoadPrefix turns the explorer into a sub-job explorer below the given prefix.
func (ex *Explorer) LoadPrefix(p []PrefixStep) {
	for _, st := range p {
		d := &Decision{kind: st.Kind, nAlts: st.NAlts, feasible: []int{st.Alt}, models: []map[string]uint64{nil}}
		if st.Kind == "concretize" {
			d.values = make([]uint64, st.Alt+1)
			d.values[st.Alt] = st.Value
		}
		ex.decisions = append(ex.decisions, d)
	}
	ex.prefixLen = len(p)
}

func (ex *Explorer) beginRun() {
	ex.cursor = 0
	ex.pc = ex.pc[:0]
	clear(ex.pcSet)
	clear(ex.known)
	ex.model = nil
}

func (ex *Explorer) atFrontier() bool { return ex.cursor >= len(ex.decisions) }

// skipAsserts: in a sub-job the assertions up to the first decision after
// the forced prefix were already checked by the splitting run.
func (ex *Explorer) skipAsserts() bool {
	if ex.prefixLen == 0 {
		return false
	}
	if ex.prefixFresh {
		return ex.cursor < ex.prefixLen
	}
	return ex.cursor <= ex.prefixLen
}

// Donate gives away the unexplored alternatives of the shallowest open
// decision: each becomes the prefix of a new sub-job, and this explorer will
// not visit them. Returns nil if there is nothing to give.
func (ex *Explorer) Donate() [][]PrefixStep {
	for i := ex.prefixLen; i < len(ex.decisions)-1; i++ {
		d := ex.decisions[i]
		if d.pos+1 >= len(d.feasible) {
			continue
		}
		base := make([]PrefixStep, i)
		for j := 0; j < i; j++ {
			dj := ex.decisions[j]
			st := PrefixStep{Kind: dj.kind, NAlts: dj.nAlts, Alt: dj.feasible[dj.pos]}
			if dj.kind == "concretize" {
				st.Value = dj.values[st.Alt]
			}
			base[j] = st
		}
		var out [][]PrefixStep
		for _, alt := range d.feasible[d.pos+1:] {
			st := PrefixStep{Kind: d.kind, NAlts: d.nAlts, Alt: alt}
			if d.kind == "concretize" {
				st.Value = d.values[alt]
			}
			p := append(append([]PrefixStep{}, base...), st)
			out = append(out, p)
		}
		d.feasible = d.feasible[:d.pos+1]
		d.models = d.models[:d.pos+1]
		return out
	}
	return nil
}

func (ex *Explorer) inconclusive(msg string) {
	ex.inconc = append(ex.inconc, msg)
	panic(pathEnd{"inconclusive", msg})
}

// checkModel verifies a solver model against the path condition plus extra
// with the engine's own evaluator (guards the printer and the solver).
func (ex *Explorer) checkModel(m map[string]uint64, extra *Term) {
	ex.St.ModelChecks++
	memo := map[int]uint64{}
	for _, p := range ex.pc {
		if Eval(p, m, memo) != 1 {
			ex.inconclusive("solver model does not satisfy the path condition")
		}
	}
	if extra != nil && Eval(extra, m, memo) != 1 {
		ex.inconclusive("solver model does not satisfy the queried condition")
	}
}

// crossCheckUnsat re-asks an unsat answer (path condition ∧ extra) of the
// second solver.
func (ex *Explorer) crossCheckUnsat(extra *Term) {
	if ex.xsolver == nil || ex.xEvery <= 0 {
		return
	}
	ex.xCount++
	if ex.xCount%ex.xEvery != 0 {
		return
	}
	ex.St.XChecked++
	x := ex.xsolver
	ex.syncX()
	x.Push()
	x.Assert(extra)
	xr := x.Check()
	x.Pop(1)
	switch xr {
	case "sat":
		ex.St.XDisagree++
		ex.inconclusive("solver disagreement: " + ex.solver.name + " unsat, " + ex.xsolver.name + " sat")
	case "unknown":
		ex.St.XUnknown++
		ex.inconclusive("cross-check solver returned unknown")
	}
}

// syncX brings the second solver's assertion stack in line with the path
// condition: it mirrors the decision stack lazily (one level per decision).
func (ex *Explorer) syncX() {
	x := ex.xsolver
	if x.level > len(ex.pc) {
		x.Pop(x.level - len(ex.pc))
	}
	// levels below xValid are known to hold the current prefix
	if ex.xValid > x.level {
		ex.xValid = x.level
	}
	if x.level > ex.xValid {
		x.Pop(x.level - ex.xValid)
	}
	for x.level < len(ex.pc) {
		p := ex.pc[x.level]
		x.Push()
		x.Assert(p)
	}
	ex.xValid = x.level
}

// query asks sat(PC ∧ extra) of the main solver; returns sat?, model.
func (ex *Explorer) query(extra *Term) (bool, map[string]uint64) {
	s := ex.solver
	s.Push()
	s.Assert(extra)
	r := s.Check()
	var m map[string]uint64
	if r == "sat" {
		m = s.ModelOfDeclared()
	}
	s.Pop(1)
	if qlog {
		fmt.Fprintf(os.Stderr, "Q %s %s\n", r, termStr(extra, 6))
	}
	if r == "unknown" && ex.xsolver != nil {
		// timeout or incompleteness of the first solver: ask the second one
		ex.St.Fallbacks++
		x := ex.xsolver
		ex.syncX()
		x.Push()
		x.Assert(extra)
		r = x.Check()
		if r == "sat" {
			m = x.ModelOfDeclared()
		}
		x.Pop(1)
		if r == "unsat" {
			return false, nil
		}
	}
	switch r {
	case "unknown":
		ex.inconclusive("solver returned unknown: " + fmt.Sprint(s.Errors))
	case "sat":
		ex.checkModel(m, extra)
		return true, m
	}
	ex.crossCheckUnsat(extra)
	return false, nil
}

// Holds reports whether c is implied by the path condition (one query, no decision).
func (ex *Explorer) Holds(c *Term) (bool, map[string]uint64) {
	if c.IsTrue() || ex.pcSet[c] {
		return true, nil
	}
	if v, ok := ex.Decided(c); ok && v {
		return true, nil
	}
	nc := ex.tt.Not(c)
	if ex.model != nil {
		if Eval(nc, ex.model, map[int]uint64{}) == 1 {
			ex.St.ModelHits++
			return false, ex.model
		}
	}
	sat, m := ex.query(nc)
	return !sat, m
}

func (ex *Explorer) recordSplit() {
	p := make([]PrefixStep, len(ex.decisions))
	for i, d := range ex.decisions {
		st := PrefixStep{Kind: d.kind, NAlts: d.nAlts, Alt: d.feasible[d.pos]}
		if d.kind == "concretize" {
			st.Value = d.values[st.Alt]
		}
		p[i] = st
	}
	ex.prefixes = append(ex.prefixes, p)
	panic(pathEnd{"split", ""})
}

// choose picks one of the mutually exclusive, exhaustive alternatives.
// emptyKind is the path end raised if none is feasible ("" = inconclusive).
func (ex *Explorer) choose(kind string, alts []*Term, emptyKind string) int {
	if ex.noFork {
		panic(pathEnd{"nofork", ""})
	}
	k := ex.cursor
	if k < len(ex.decisions) {
		ex.cursor++
		d := ex.decisions[k]
		if d.nAlts != len(alts) || d.kind != kind {
			ex.inconclusive(fmt.Sprintf("non-deterministic re-execution at decision %d: %s/%d vs %s/%d", k, d.kind, d.nAlts, kind, len(alts)))
		}
		i := d.feasible[d.pos]
		if k == len(ex.decisions)-1 && d.models[d.pos] != nil {
			ex.model = d.models[d.pos]
		}
		ex.enter(k, alts[i])
		return i
	}
	// frontier
	d := &Decision{nAlts: len(alts), kind: kind}
	memo := map[int]uint64{}
	narrow := (ex.Narrow || ex.NarrowOnce) && kind == "branch"
	ex.NarrowOnce = false
	if narrow && ex.model != nil {
		// the alternative of the current model first
		for i, a := range alts {
			if !a.IsFalse() && (a.IsTrue() || Eval(a, ex.model, memo) == 1) {
				d.feasible = append(d.feasible, i)
				d.models = append(d.models, ex.model)
				break
			}
		}
	}
	for i, a := range alts {
		if narrow && len(d.feasible) > 0 {
			ex.St.Narrowed++
			break
		}
		if a.IsFalse() {
			continue
		}
		if a.IsTrue() {
			d.feasible = append(d.feasible, i)
			d.models = append(d.models, ex.model)
			continue
		}
		if ex.model != nil && Eval(a, ex.model, memo) == 1 {
			ex.St.ModelHits++
			d.feasible = append(d.feasible, i)
			d.models = append(d.models, ex.model)
			continue
		}
		if sat, m := ex.query(a); sat {
			d.feasible = append(d.feasible, i)
			d.models = append(d.models, m)
		}
	}
	if len(d.feasible) == 0 {
		if emptyKind != "" {
			panic(pathEnd{emptyKind, ""})
		}
		ex.inconclusive("no feasible alternative at " + kind)
	}
	if ex.splitDepth > 0 && len(ex.decisions) >= ex.splitDepth && len(d.feasible) > 1 {
		ex.recordSplit()
	}
	ex.cursor++
	ex.decisions = append(ex.decisions, d)
	ex.St.Decisions++
	if len(ex.decisions) > ex.St.MaxDepth {
		ex.St.MaxDepth = len(ex.decisions)
	}
	i := d.feasible[0]
	ex.model = d.models[0]
	ex.enter(k, alts[i])
	return i
}

// ChooseFree is a decision whose n alternatives are all possible (scheduling
// choices such as a map iteration order).
func (ex *Explorer) ChooseFree(kind string, n int) int {
	if n <= 1 {
		return 0
	}
	alts := make([]*Term, n)
	for i := range alts {
		alts[i] = ex.tt.Bool(true)
	}
	return ex.choose(kind, alts, "")
}

// enter asserts the constraint of decision k if the solver stack does not have it yet.
func (ex *Explorer) enter(k int, c *Term) {
	ex.pc = append(ex.pc, c)
	ex.pcSet[c] = true
	ex.learn(c)
	if ex.solver.level == k {
		ex.solver.Push()
		ex.solver.Assert(c)
	} else if ex.solver.level < k {
		ex.inconclusive("solver stack out of sync")
	}
}

// learn records what a new conjunct of the path condition fixes.
func (ex *Explorer) learn(c *Term) {
	if c.IsConst() {
		return
	}
	ex.known[c] = 1
	switch c.Op {
	case ONot:
		ex.known[c.Args[0]] = 0
	case OAnd:
		ex.learn(c.Args[0])
		ex.learn(c.Args[1])
	case OEq:
		a, b := c.Args[0], c.Args[1]
		if a.IsConst() && !b.IsConst() {
			ex.known[b] = a.C
		} else if b.IsConst() && !a.IsConst() {
			ex.known[a] = b.C
		}
	}
}

// peval evaluates t using only what the path condition fixes; ok=false if
// the value is not determined that way.
func (ex *Explorer) peval(t *Term, memo map[*Term]int8, vals map[*Term]uint64) (uint64, bool) {
	if t.Op == OConst {
		return t.C, true
	}
	if v, ok := ex.known[t]; ok {
		return v, true
	}
	if t.Op == OVar {
		return 0, false
	}
	if st, ok := memo[t]; ok {
		if st == 1 {
			return vals[t], true
		}
		return 0, false
	}
	av := make([]uint64, len(t.Args))
	aw := make([]int, len(t.Args))
	all := true
	var okv [3]bool
	for i, a := range t.Args {
		v, ok := ex.peval(a, memo, vals)
		av[i], aw[i] = v, a.W
		if i < 3 {
			okv[i] = ok
		}
		if !ok {
			all = false
		}
	}
	res, ok := uint64(0), false
	switch {
	case all:
		res, ok = evalOp(t.Op, t.W, t.C, av, aw), true
	case t.Op == OAnd && ((okv[0] && av[0] == 0) || (okv[1] && av[1] == 0)):
		res, ok = 0, true
	case t.Op == OOr && ((okv[0] && av[0] == 1) || (okv[1] && av[1] == 1)):
		res, ok = 1, true
	case t.Op == OIte && okv[0]:
		if av[0] == 1 && okv[1] {
			res, ok = av[1], true
		} else if av[0] == 0 && okv[2] {
			res, ok = av[2], true
		}
	case t.Op == OBvAnd && ((okv[0] && av[0] == 0) || (okv[1] && av[1] == 0)):
		res, ok = 0, true
	}
	if ok {
		memo[t] = 1
		vals[t] = res
	} else {
		memo[t] = 0
	}
	return res, ok
}

// Decided reports whether the path condition fixes the boolean c.
func (ex *Explorer) Decided(c *Term) (bool, bool) {
	if len(ex.known) == 0 {
		return false, false
	}
	v, ok := ex.peval(c, map[*Term]int8{}, map[*Term]uint64{})
	return v == 1, ok
}

// Branch decides a symbolic boolean.
func (ex *Explorer) Branch(c *Term) bool {
	if c.IsTrue() {
		return true
	}
	if c.IsFalse() {
		return false
	}
	// syntactic implication by the path condition
	if ex.pcSet[c] {
		ex.St.Syntactic++
		return true
	}
	if ex.pcSet[ex.tt.Not(c)] {
		ex.St.Syntactic++
		return false
	}
	if v, ok := ex.Decided(c); ok {
		ex.St.Syntactic++
		return v
	}
	return ex.choose("branch", []*Term{c, ex.tt.Not(c)}, "") == 0
}

// Assume adds c to the path condition or ends the path.
func (ex *Explorer) Assume(c *Term) {
	if c.IsTrue() || ex.pcSet[c] {
		return
	}
	if c.IsFalse() {
		panic(pathEnd{"assume", ""})
	}
	if v, ok := ex.Decided(c); ok {
		if v {
			return
		}
		panic(pathEnd{"assume", ""})
	}
	ex.choose("assume", []*Term{c}, "assume")
}

// AssertFailed records that assertion c can fail here; the path continues
// with c assumed. Returns false if the path cannot continue.
func (ex *Explorer) AssumeAfterFailure(c *Term) {
	k := ex.cursor
	if k < len(ex.decisions) {
		ex.cursor++
		ex.enter(k, c)
		return
	}
	sat, m := ex.query(c)
	if !sat {
		panic(pathEnd{"assertfalse", ""})
	}
	d := &Decision{kind: "assertfail", nAlts: 1, feasible: []int{0}, models: []map[string]uint64{m}, term: c}
	ex.cursor++
	ex.decisions = append(ex.decisions, d)
	ex.model = m
	ex.enter(k, c)
}

// ReplayAssertFail reports whether the next recorded decision is the failure
// of assertion c (re-execution of a prefix).
func (ex *Explorer) ReplayAssertFail(c *Term) bool {
	if ex.cursor < len(ex.decisions) {
		d := ex.decisions[ex.cursor]
		if d.kind == "assertfail" && (d.term == c || d.term == nil) {
			if d.term == nil {
				d.term = c
			}
			return true
		}
	}
	return false
}

// Concretize returns a concrete value for t, forking over all feasible values.
func (ex *Explorer) Concretize(t *Term) uint64 {
	if t.IsConst() {
		return t.C
	}
	if ex.noFork {
		panic(pathEnd{"nofork", ""})
	}
	k := ex.cursor
	if k < len(ex.decisions) {
		d := ex.decisions[k]
		if d.kind != "concretize" {
			ex.inconclusive("non-deterministic re-execution (concretize)")
		}
		ex.cursor++
		v := d.values[d.feasible[d.pos]]
		if ex.model != nil && Eval(t, ex.model, map[int]uint64{}) != v {
			ex.model = nil
		}
		ex.enter(k, ex.tt.Eq(t, ex.tt.Const(t.W, v)))
		return v
	}
	// enumerate feasible values
	d := &Decision{kind: "concretize"}
	s := ex.solver
	s.ref(t) // define the term before check-sat: a definition added after it is not part of the model
	s.Push()
	narrow := ex.Narrow || ex.NarrowOnce
	ex.NarrowOnce = false
	for {
		if narrow && len(d.values) == 1 {
			ex.St.Narrowed++
			break
		}
		r := s.Check()
		if r == "unknown" {
			s.Pop(1)
			ex.inconclusive("solver returned unknown (concretize)")
		}
		if r == "unsat" {
			break
		}
		v := s.ValuesOf([]*Term{t})[0]
		d.values = append(d.values, v)
		s.Assert(ex.tt.Not(ex.tt.Eq(t, ex.tt.Const(t.W, v))))
		if len(d.values) > ex.FanoutCap {
			s.Pop(1)
			ex.St.FanoutCapHits++
			ex.inconclusive(fmt.Sprintf("fan-out cap %d hit while concretising", ex.FanoutCap))
		}
	}
	s.Pop(1)
	if len(d.values) == 0 {
		ex.inconclusive("concretize: no value")
	}
	// exploration order must not depend on the solver: sort
	sortU64(d.values)
	d.nAlts = len(d.values)
	for i := range d.values {
		d.feasible = append(d.feasible, i)
		d.models = append(d.models, nil)
	}
	if ex.splitDepth > 0 && len(ex.decisions) >= ex.splitDepth && len(d.values) > 1 {
		ex.recordSplit()
	}
	ex.decisions = append(ex.decisions, d)
	ex.St.Decisions++
	if len(ex.decisions) > ex.St.MaxDepth {
		ex.St.MaxDepth = len(ex.decisions)
	}
	ex.cursor++
	v := d.values[0]
	if ex.model != nil && Eval(t, ex.model, map[int]uint64{}) != v {
		ex.model = nil
	}
	ex.enter(k, ex.tt.Eq(t, ex.tt.Const(t.W, v)))
	return v
}

func sortU64(a []uint64) {
	for i := 1; i < len(a); i++ {
		for j := i; j > 0 && a[j-1] > a[j]; j-- {
			a[j-1], a[j] = a[j], a[j-1]
		}
	}
}

// next advances to the next unexplored path; returns false when done.
func (ex *Explorer) next() bool {
	for len(ex.decisions) > ex.prefixLen {
		d := ex.decisions[len(ex.decisions)-1]
		if d.pos+1 < len(d.feasible) {
			d.pos++
			if ex.solver.level >= len(ex.decisions) {
				ex.solver.Pop(ex.solver.level - (len(ex.decisions) - 1))
			}
			if ex.xValid > len(ex.decisions)-1 {
				ex.xValid = len(ex.decisions) - 1
			}
			return true
		}
		ex.decisions = ex.decisions[:len(ex.decisions)-1]
	}
	if ex.solver.level > 0 {
		ex.solver.Pop(ex.solver.level)
	}
	ex.xValid = 0
	return false
}

// Model returns a model of the current (complete) path condition.
func (ex *Explorer) Model() map[string]uint64 {
	if ex.model != nil {
		return ex.model
	}
	if len(ex.pc) == 0 {
		return map[string]uint64{}
	}
	if ex.solver.level != len(ex.pc) {
		// the solver stack may be deeper than the run got (path ended early
		// during a re-execution); ask with a fresh conjunction
		ex.solver.Pop(ex.solver.level)
		for _, p := range ex.pc {
			ex.solver.Push()
			ex.solver.Assert(p)
		}
	}
	r := ex.solver.Check()
	if r != "sat" {
		msg := "path condition not satisfiable at path end: " + r
		for _, p := range ex.pc {
			msg += "\n   pc: " + termStr(p, 6)
		}
		msg += fmt.Sprintf("\n   level=%d decisions=%d cursor=%d", ex.solver.level, len(ex.decisions), ex.cursor)
		ex.inconclusive(msg)
	}
	m := ex.solver.ModelOfDeclared()
	ex.checkModel(m, nil)
	return m
}
