package main

import "fmt"

var propOrder = []string{"C01", "C02", "C03", "C04", "C05", "C06", "C07", "C08", "C09", "C10", "C11", "C12", "C13", "C14", "C15", "C16", "C17", "C18", "C19"}

type PropMeta struct {
	Level       string
	Explanation string
	Bounds      map[string]string
	Outside     string
	Assumptions []string
	Intrinsics  []string
}

var commonAssumptions = []string{
	"go/ssa (golang.org/x/tools v0.29.0) translates the Go source of /repo faithfully",
	"the engine's semantics of the SSA instruction kinds used (mitigated: sampled paths are re-executed natively and every observation compared)",
	"slice/string lengths, make sizes and indices are concretised by solver enumeration; contents and scalars stay symbolic",
	"cvc5 1.0.3 answers are correct (mitigated: sat models are re-evaluated by the engine, unsat answers are cross-checked with z3 4.8.12)",
}

var commonIntrinsics = []string{
	"fmt.Sprintf/Fprintf/Fprintln/Errorf: deterministic function of format and operands, result kept as a rope; operands with Error()/String() methods have them executed symbolically",
	"errors.New/Is/Unwrap, strings.Builder, bytes.Repeat, strconv.FormatInt, time.Duration.String",
	"io.EOF and friends are distinct error objects; package initialisers of dependencies are not run",
}

// Indirect names the native demonstration of violations that cannot be
// replayed by feeding the model to the same harness.
type Indirect struct {
	Alt  string
	Kind string // assert | race | multiproc
}

var indirectHarness = map[string]Indirect{}

var propMeta = map[string]*PropMeta{}

func meta(id, level, expl string, quick, thorough, outside string, extraAssume ...string) {
	propMeta[id] = &PropMeta{Level: level, Explanation: expl,
		Bounds:      map[string]string{"quick": quick, "thorough": thorough},
		Outside:     outside,
		Assumptions: append(append([]string{}, commonAssumptions...), extraAssume...),
		Intrinsics:  commonIntrinsics}
}

const (
	boundsA = "A-mode (all bytes symbolic): UnmarshalBinary bodies of every length 0..N_max with N_max = CONNECT %s, CONNACK %s, PUBLISH %s, others %s (PINGREQ/PINGRESP/Undefined 3); ReadPacket streams of 0..%s bytes with declared remaining length <= stream length + 2"
	boundsS = "S-mode (shape concrete, every value and content byte symbolic): per type minimal / all-present / each property alone / scalar presence subsets by forking; strings of length 0,1,2 and one string or binary field at a time at length %s (contents longer than 24 bytes: 4 symbolic bytes at each end, concrete filler between); 0-2 user properties, 0-3 list elements, will on/off with each will property, credentials in all four combinations, PUBLISH QoS 0-2, payloads of 100/200/20000 bytes%s"
)

func init() {
	sQuick := fmt.Sprintf(boundsS, "127, 128, 65535", "")
	sThor := fmt.Sprintf(boundsS, "127, 128, 16383, 16384, 65534, 65535", " and 2097162 bytes (four-byte remaining length)")
	aQuick := fmt.Sprintf(boundsA, "10", "7", "7", "8", "6")
	aThor := fmt.Sprintf(boundsA, "12", "9", "9", "10", "8")
	outS := "lengths strictly between the listed boundary values; more than 2 user properties or 3 list elements; multi-byte UTF-8 (string contents are drawn from 0x01..0x7f); contents of long strings other than their first and last four bytes"
	outA := "frames longer than N_max with arbitrary content (the windowed templates reach further but are not complete); declared remaining lengths beyond stream length + 2"

	meta("C01", "model_checking",
		"For every shape an abstract packet with symbolic values is built through the public constructors and setters, written with WriteTo into a contiguous sink, read back with ReadPacket, and every public accessor of the decoded packet is compared (one solver query per observation) with the value that was set; the decoded packet is written again and compared byte for byte; a CONNECT is also built with a will message that replaces one attached earlier (symbolic QoS 0..3 and retain flag of the first). All library code (setters, two-pass encoders, ReadPacket, property loop, wire types) is executed symbolically from go/ssa.",
		sQuick, sThor, outS)
	meta("C02", "model_checking",
		"As C01, but the frame WriteTo produced is judged by a strict reference decoder written in the harness from the MQTT v5.0 specification text (own constants, own variable-byte-integer code, shares nothing with the library) which is itself executed symbolically: exactly one frame, minimal and exact remaining length, reserved flag bits, field order, admissible property identifiers with their wire types at most once, and the decoded values equal the values set (absent property = zero value).",
		sQuick+"; well-formed packets only (topic name or non-zero alias, non-zero packet identifier with QoS > 0, at least one list element)", sThor, outS,
		"the reference decoder implements the specification correctly (mitigated: it is exercised against the reference encoder and the library in C03)")
	meta("C03", "model_checking",
		"Two job families. S-mode: frames come from a reference encoder written from the specification (property orders the library never emits: ascending, descending, rotated; explicit zero-valued properties; PUBACK-family frames of remaining length 2 and 3; DISCONNECT/AUTH of length 0/1; DISCONNECT properties; multi-byte property lengths; boundary string lengths) with symbolic values; ReadPacket must accept and every accessor must equal the value the frame carries. A-mode: the body is N unconstrained symbolic bytes; the library decoder and the reference decoder are both executed symbolically and whenever the reference verdict is VALID the library must accept and agree on every accessor.",
		sQuick+"; "+aQuick+" (A-mode classifier: one byte less, CONNECT 10)", sThor+"; "+aThor, outS+"; "+outA+"; frames the reference decoder classifies as carrying a value-level protocol error (nothing is asserted about them)")
	meta("C04", "model_checking",
		"UnmarshalBinary of all 16 types and ReadPacket are executed on fully symbolic bytes; every slice/index/make bounds check of the compiled code is a fork whose failing side is asked of the solver, so a reachable runtime panic yields a concrete input. T-mode: valid frames with a 1-2 byte unconstrained window at every offset and every prefix of valid frames (remaining length kept and adjusted). ReadPacket must return exactly one of packet and error. Reuse: N arbitrary bytes are decoded with UnmarshalBinary into a packet value that has already decoded a full valid body (every mapped property, non-empty strings) - state kept from the first decode must not make the second panic.",
		aQuick+"; second decode into a used packet 0..6 bytes; windows of 1 byte (2 bytes for types other than CONNECT/CONNACK/PUBLISH) over small valid frames of every type; all prefixes", aThor+"; windows of 1 and 2 bytes", outA)
	meta("C05", "model_checking",
		"The explorations of C04 with the engine's step meter and allocation meter as unwinding assertions: every path must finish within 3000*(N+4) library SSA instructions and 64*(N+4)+4096 bytes (+ the declared remaining length for ReadPacket); there is no silent unwinding limit, exhausting a budget is the violation. Returned (and half-built) packets must not hold more list elements than the frame has bytes. Extra families: SUBSCRIBE/UNSUBSCRIBE/SUBACK/UNSUBACK payload sections of N arbitrary bytes; valid frames with 8, 48 and 96 user properties / list elements (will user properties included) decoded under the same linear budgets, where quadratic decoding shows (confirmed natively through runtime.MemStats).",
		aQuick+"; list payloads of 0..7 bytes", aThor+"; list payloads of 0..10 bytes", outA+"; 'proportional' is checked as these fixed linear budgets (a quadratic algorithm with a small constant would pass at these sizes)")
	meta("C06", "model_checking",
		"One ReadPacket call on a frame followed by three unconstrained trailing bytes, from a counting contiguous reader: the number of bytes consumed must be exactly the frame, on acceptance and on content rejection; the call is repeated on a second stream that differs only in the trailing bytes (fresh symbols) and outcome and every accessor must be equal — a two-run non-interference check decided by the solver. Plus 1-3 frame concatenations read to io.EOF, in which every packet is kept and re-checked after the later calls (a recycled read buffer shows there), every type followed by a longer frame and by a frame of its own type, and frames of 200, 5000 and 20000 bytes followed by trailing bytes. One call from an arbitrary position is the inductive step for arbitrary sequences.",
		"A-mode: first byte symbolic, bodies 0..5 bytes; S-mode small valid frames of every type incl. remaining length 0; 8 sequences", "A-mode bodies 0..7; 12 sequences", outA)
	meta("C07", "model_checking",
		"One symbolic frame is read twice: contiguously and through a reader whose chunk size per Read is a symbolic integer constrained only by the io.Reader contract (0..min(len(p), rest), at most Z consecutive (0,nil) results, last chunk as (n,io.EOF) or (n,nil)+(0,io.EOF) chosen by a symbolic boolean); the solver enumerates exactly the feasible schedules. Same acceptance and same accessor values are asserted. Frames too long for all compositions are delivered with every pair (thorough: triple) of symbolic split points, and 300- and 20000-byte frames under four fixed schedules (byte by byte, an empty read before every byte, 3-byte chunks, last byte together with io.EOF).",
		"A-mode whole frames of 2..5 bytes (Z=0; Z=1 up to 4 bytes); S-mode minimal valid frame of every type, Z=0", "A-mode 2..6 bytes, Z in {0,1}", outA+"; more than one consecutive empty read")
	meta("C08", "model_checking",
		"A proper prefix of a symbolic frame is delivered (cut offset symbolic: every offset of every frame shape), then the reader returns (0,io.EOF) forever, or (0,E), or the last chunk together with E. ReadPacket must return a nil packet and an error, errors.Is(err,E) for failures, errors.Is(err,io.EOF) for a cut at offset 0. Frames of 200 and 20000 bytes are cut at positions around the header, 127/128, 16383..16400, the middle and the end.",
		"A-mode whole frames of 2..5 bytes; S-mode small valid frames of every type; 3 failure modes", "A-mode 2..7 bytes", outA+"; prefix delivered contiguously (fragmented delivery of the prefix is C07's subject)")
	meta("C09", "model_checking",
		"(a) valid frames from the reference encoder are cut at every position strictly inside a unit (2/4-byte integer, length-prefixed string, variable byte integer, property identifier + value), remaining length set to the shortened size: must be rejected; A-mode: on N arbitrary bytes the reference decoder classifies and TRUNCATED/5-byte-varint/bad-boolean/undefined-property frames must be rejected. (b) a symbolic 5-byte variable byte integer at the remaining length (15 types), every property length, both subscription identifier positions. (c) every boolean property with a symbolic value >= 2 (254 values, one query). (d) a symbolic undefined identifier (229 values, one symbol) in the property section of every type, followed by 0,1,2,4 arbitrary bytes.",
		sQuick+" (cuts: strings up to 128 bytes); "+aQuick+" (classifier: one byte less)", sThor+"; "+aThor, outS+"; "+outA+"; the raw PUBLISH payload is exempt from (a) as the property states")
	meta("C10", "model_checking",
		"WriteTo of every C01 shape (plus QoS 3, empty lists, zero values, Undefined) against three writer stubs: accept all, fail before writing with error E, accept a symbolic k < frame length and return (k,E). The bytes handed to the writer (over however many Write calls) are exactly one frame by their own remaining length, no Write follows a Write that reported an error, returned count and error are the writer's, and the integer String() prints before ' bytes' (a rope query on the symbolic fmt result) equals the frame length. Also: write and render, apply one setter, write again (stale cached sizes); 5000-, 20000- and 70000-byte packets against writers that accept only the first k bytes for every k < 40, around 4096/16384/32768/65536, the middle and the end; write, apply one setter with an argument that shrinks, keeps or grows the frame, write again.",
		sQuick+" (short writes: frames without boundary-length fields)", sThor, outS)
	meta("C11", "model_checking",
		"The same packet is encoded seven times with String, Dump, WellFormed and all accessors in between; the engine runs map iterations in insertion order, reversed, alternating per Range execution (length pass vs write pass), and rotated by 1..3 — the iteration order is an explicit schedule parameter of the interpreter instead of the runtime's random choice. All encodings must be byte-identical and no accessor may change. A second process is modelled by re-running the package initialisers under another iteration order and rebuilding the packet from the same values. A counterexample order is confirmed natively by encoding the packet 2000 times until two outputs differ, a cross-process one by running the case in up to 24 processes.",
		"C01 shapes without boundary-length fields; orders: insertion, reverse, alternating, rotations 1-3", "same plus scalar-presence forking for CONNECT/CONNACK", outS+"; iteration orders other than the six listed (not all n! permutations)",
		"an encoder whose output depends on map iteration order differs between insertion order and at least one of reverse / alternating / rotated orders")
	meta("C12", "model_checking",
		"Every public setter/adder (symbolic arguments, strings of length 0 and 1) is applied (a) to a packet already built with symbolic values — set-after-set from an arbitrary API-reachable state — and (b) in sequences of two (thorough: three) from a fresh packet; after every call all accessors are compared with a record-of-fields model kept by the harness (derived CONNECT flags, will bits, session present, PUBLISH bits included), and the frame then written is read by the reference decoder and compared with the model.",
		"all setters x 2 pre-states x string length {0,1}; all pairs of setters per type (CONNECT/CONNACK: a third of the ordered pairs plus all repeats)", "all ordered pairs and k1,k2,k1 triples", "histories longer than 3; string arguments longer than 1 byte")
	meta("C13", "other",
		"Solver-based symbolic execution does not explore goroutine interleavings. What is decided on the real code is the premise of the lemma 'operations that perform no write to memory reachable by another goroutine cannot race': after the packet exists, every object allocated so far and all package-level variables are marked shared; WriteTo, String, Dump, WellFormed, all accessors and a ReadPacket on a private stream are executed on all symbolic paths and every Store, MapUpdate, in-place append and copy into a shared object is counted by the interpreter; the count must be 0 on every feasible path (infeasible paths are pruned by the solver). sync.Pool is modelled (Get is a decision, memory that was Put must not be used afterwards). Short frames of every type are read under the monitor (writes by a reader the library calls back count). With no shared writes every interleaving of such calls is race-free and each WriteTo computes the sequential result. Findings are confirmed natively by running the operations from 8 goroutines in a -race build.",
		"C01 shapes without boundary-length fields, built and decoded packets; a will message shared between a CONNECT and direct use, also changed through its own setters (payload, topic, flags, properties) after SetWill and before sharing; a SUBSCRIBE with any 32-bit subscription identifier, zero included", "same plus scalar-presence forking", outS+"; interleavings are not enumerated (sufficient condition only); synchronisation primitives are not modelled (a tree that introduces them is reported as inconclusive, not as a violation)")
	meta("C14", "model_checking",
		"Aliasing: a packet is decoded (UnmarshalBinary of all 16 types on arbitrary bytes and on valid bodies; ReadPacket), all accessors are snapshotted, then every byte of the input slice is overwritten with a fresh symbolic byte and the solver is asked whether any accessor can change. Interference: two packets are decoded from independent symbolic frames; every setter, WriteTo, String and Dump run on the first; the second's accessors must be unchanged, no package-level object may be written (interpreter monitor), and decoding the first frame again must give the first result. Further: decoding into packets that already hold data (NewConnect(), slices shared through setters, a will kept from an earlier decode), a PUBLISH kept while N arbitrary bytes are decoded as any type, and a packet kept while the next frame of the same stream is read.",
		aQuick+" (two bytes less); "+sQuick+" (strings up to 128 bytes)", aThor+"; "+sThor, outS+"; "+outA)
	meta("C15", "model_checking",
		"The unexported variable-byte-integer codec (fill, width, UnmarshalBinary, ReadFrom) and buffer.get are executed symbolically. Encoding: one symbolic 32-bit value constrained to 0..268435455, compared byte for byte with shift/mask arithmetic written in the harness; the encoder loop forks into the four size classes and each class is one solver query over all its values, so the whole 2^28 domain is decided. Decoding: all byte sequences of length 0..5 with every byte symbolic; both decoders must agree with a specification reading; decoding into a receiver that already holds a value must overwrite it.",
		"value: all 2^28; byte sequences: every length 0..5, all bytes symbolic; subscription identifier 1..268435455 through SetSubscriptionID/WriteTo/ReadPacket",
		"same (the domain is already complete); plus sequences of length 6 and 7",
		"values above 268435455 handed to the encoder (not representable in MQTT)")
	meta("C16", "model_checking",
		"The first byte is one symbolic byte (all 256 values); the dispatch forks on the type nibble and for each type a valid body from the reference encoder (minimal, remaining length 0 where allowed, richer) follows. The dynamic type must match the nibble, Undefined must carry the body, PUBLISH must report DUP/QoS/RETAIN of the byte, and writing the decoded packet must reproduce the byte; two frames of one type with different flag bits are read from one stream and the first packet, kept, must still reproduce its own byte.",
		"256 first bytes x 3 body sets", "same", "PUBLISH with both QoS bits set may be rejected (malformed); if accepted its flags are checked")
	meta("C17", "model_checking",
		"Publish (topic length 0..2, topic alias, QoS 0..3, packet identifier symbolic), Subscribe (0..2 filters of length 0..1, a symbolic option byte per filter, subscription identifier over the whole non-negative int range or unset) and TopicFilter are built through the API and decoded from the wire; WellFormed() != nil must equal the documented predicate written out in the harness, and String() must contain the literal 'malformed!' exactly then (a rope query on format-literal text; contents are assumed free of '!'). Topics of 65535, 65536 and 131072 bytes count as non-empty.",
		"all values of the scalar fields; topic length 0,1,2; 0-2 filters", "same plus two filters with subscription identifier", "filters and topics longer than 2 bytes (WellFormed only looks at emptiness)")
	meta("C18", "model_checking",
		"Non-interference by self-composition: two CONNECT packets are built from the same symbolic values except user name and password, which are independent symbolic byte strings of equal concrete lengths; String() and Dump() of both are produced as ropes by the symbolic fmt model and compared piece by piece, symbolic pieces by a solver query for all values. Built through the API and decoded from the wire; other fields are independent symbols the solver may set equal to the secrets. Damaged frames: a concrete CONNECT with two different concrete credential pairs and the same 1-2 unconstrained bytes at every offset in front of the credentials; whenever both are accepted with the credentials intact they must render identically.",
		"credential lengths {1,2,9,10} (equal pairs and 1+10, 2+9); minimal CONNECT and CONNECT with all properties, user property and will", "all 16 length pairs, two more shapes", "credential lengths other than 1, 2, 9, 10",
		"fmt renders as a function of its operands (the rope model)")
	meta("C19", "model_checking",
		"String() and Dump() are executed symbolically on zero values and fresh packets of all types, on packets under construction (setter sequences), on the receivers of UnmarshalBinary on arbitrary bytes whether or not decoding succeeded, and on packets ReadPacket returns; reaching a panic or exhausting the step budget inside a renderer is the violation. The byte renderings (reason codes, first byte, CONNECT flags, CONNACK flags, subscription options) are driven with one symbolic byte each, every table index bounds-checked by the solver; values outside MQTT's ranges that the setters accept (any 64-bit subscription identifier, any QoS byte) are rendered and written too. Renderer jobs run under a 40000-instruction budget.",
		"UnmarshalBinary bodies up to N_max-4 per type, ReadPacket streams up to 4 bytes, setter pairs, 5 byte renderings", "bodies up to N_max-3, streams up to 5 bytes", outA,
		"fmt itself does not panic or block")
	indirectHarness["ZZ_C11_det"] = Indirect{"ZZ_C11_native", "assert"}
	indirectHarness["ZZ_C11_proc"] = Indirect{"ZZ_C11_proc", "multiproc"}
	indirectHarness["ZZ_C13_ro"] = Indirect{"ZZ_C13_race", "race"}
	indirectHarness["ZZ_C13_will"] = Indirect{"ZZ_C13_will_race", "race"}
	indirectHarness["ZZ_C13_subid"] = Indirect{"ZZ_C13_subid_race", "race"}
	indirectHarness["ZZ_C13_willmod"] = Indirect{"ZZ_C13_willmod_race", "race"}
	indirectHarness["ZZ_C13_read"] = Indirect{"ZZ_C13_read_race", "race"}
}

func jobsFor(prop, tier string) []*Job {
	thorough := tier == "thorough"
	var jobs []*Job
	add := func(family, fn string, reach []string, args ...int) *Job {
		j := &Job{Prop: prop, Family: family, Fn: fn, Args: args, Reach: reach, Split: 6}
		jobs = append(jobs, j)
		return j
	}
	tn := func(t int) string { return typeNames[t] }
	// N_max of arbitrary-bytes (A-mode) bodies per type
	nmax := func(t int, quick, thoroughN int) int {
		if thorough {
			return thoroughN
		}
		return quick
	}
	umMax := func(t int) int {
		switch t {
		case 1:
			return nmax(t, 10, 12)
		case 2:
			return nmax(t, 7, 9)
		case 3:
			return nmax(t, 7, 9)
		case 12, 13, 0:
			return 3
		}
		return nmax(t, 8, 10)
	}
	switch prop {
	case "C01":
		for t := 1; t <= 15; t++ {
			for _, sh := range apiShapes(t, thorough, false) {
				add("rt/"+tn(t), "ZZ_C01_rt", []string{"rt"}, sh.Args()...)
			}
		}
		for _, wm := range []int{0, 1, 63} {
			add("rewill", "ZZ_C01_rewill", []string{"rt"}, Sh{Typ: 1, Slen: 1, Will: 1 | wm<<1, Nz: 1}.Args()...)
		}
	case "C02":
		for t := 1; t <= 15; t++ {
			for _, sh := range apiShapes(t, thorough, true) {
				add("valid/"+tn(t), "ZZ_C02_valid", []string{"written", "valid"}, sh.Args()...)
			}
		}
	case "C03":
		for t := 1; t <= 15; t++ {
			for _, sh := range wireShapes(t, thorough) {
				add("dec/"+tn(t)+"/S", "ZZ_C03_dec", []string{"dec"}, sh.Args()...)
			}
			top := umMax(t) - 1
			if t == 1 {
				top = umMax(t)
			}
			for n := 0; n <= top; n++ {
				if t == 3 {
					for q := 0; q <= 2; q++ {
						add("dec/"+tn(t)+"/A", "ZZ_C03_cls", []string{"cls"}, t, n, 3, q)
					}
				} else {
					add("dec/"+tn(t)+"/A", "ZZ_C03_cls", []string{"cls"}, t, n, 3)
				}
			}
		}
	case "C04":
		for t := 0; t <= 15; t++ {
			for n := 0; n <= umMax(t); n++ {
				add("um/"+tn(t), "ZZ_C04_um", []string{"um"}, t, n)
			}
		}
		for m := 0; m <= nmax(0, 6, 8); m++ {
			add("rp", "ZZ_C04_rp", []string{"rp"}, m)
		}
		// a second decode into a packet value that already decoded a full frame
		for t := 1; t <= 15; t++ {
			if t == 12 || t == 13 {
				continue
			}
			sh := Sh{Typ: t, Slen: 2, Nz: 2, NUser: 1, Mask: 1<<uint(nProps(t)) - 1}
			if hasList(t) {
				sh.NList = 1
			}
			if t == 1 {
				sh.Will, sh.Cred = 1|(1<<6-1)<<1, 3
			}
			if t == 3 {
				sh.Qos = 1
			}
			top := umMax(t) - 2
			if top > 6 {
				top = 6
			}
			for n := 0; n <= top; n++ {
				add("reuse/"+tn(t), "ZZ_C04_reuse", []string{"reuse"}, append([]int{n}, sh.Args()...)...)
			}
		}
		// prefixes and field-level damage of valid frames: T-mode
		for t := 1; t <= 15; t++ {
			for _, sh := range wireShapes(t, false) {
				if sh.Fld > 0 || sh.Big > 200 || sh.Slen > 100 {
					continue
				}
				ws := []int{1, 2}
				if thorough {
					ws = []int{1, 2, 3}
				}
				for _, w := range ws {
					add("tw/"+tn(t), "ZZ_C04_window", nil, append([]int{w}, sh.Args()...)...)
				}
			}
			for _, sh := range smallWireShapes(t, thorough) {
				add("prefix/"+tn(t), "ZZ_C04_prefix", []string{"prefix"}, sh.Args()...)
			}
			// one field at the top of the 16-bit length range, fully present
			for _, sh := range bigFieldShapes(t, thorough) {
				add("big/"+tn(t), "ZZ_C04_big", []string{"big"}, sh.Args()...)
			}
		}
	case "C05":
		for t := 0; t <= 15; t++ {
			for n := 0; n <= umMax(t); n++ {
				add("um/"+tn(t), "ZZ_C05_um", []string{"um"}, t, n)
			}
		}
		for m := 0; m <= nmax(0, 6, 8); m++ {
			add("rp", "ZZ_C05_rp", []string{"rp"}, m)
		}
		for _, t := range []int{8, 9, 10, 11} {
			for n := 0; n <= nmax(t, 7, 10); n++ {
				add("lists/"+tn(t), "ZZ_C05_lists", []string{"lists"}, t, n)
			}
		}
		// valid frames with many list elements under budgets linear in the
		// frame length: quadratic decoding shows here
		for t := 1; t <= 15; t++ {
			if t == 12 || t == 13 {
				continue
			}
			for _, n := range []int{8, 48, 96} {
				if n == 96 && !thorough && t != 1 && t != 3 {
					continue
				}
				sh := Sh{Typ: t, Slen: 1, NUser: n, NList: n * b2i(hasList(t) || t == 3), Nz: 3}
				if t == 1 {
					sh.Will = 1
				}
				add("many/"+tn(t), "ZZ_C05_many", []string{"many"}, sh.Args()...)
			}
			// one field at the top of the 16-bit length range: a width that
			// wraps to 0 makes a list decoder spin
			for _, sh := range bigFieldShapes(t, thorough) {
				add("bigfield/"+tn(t), "ZZ_C05_many", []string{"many"}, sh.Args()...)
			}
		}
	case "C06":
		for n := 0; n <= nmax(0, 5, 7); n++ {
			add("one/A", "ZZ_C06_amode", []string{"one"}, n)
		}
		for t := 1; t <= 15; t++ {
			for _, sh := range smallWireShapes(t, thorough) {
				add("one/S/"+tn(t), "ZZ_C06_smode", []string{"one"}, sh.Args()...)
			}
		}
		// large frames followed by other frames
		for _, big := range []int{200, 5000, 20000, 70000} {
			sh := Sh{Typ: 3, Slen: 1, Nz: 2, Big: big}
			add("one/S/"+tn(3), "ZZ_C06_smode", []string{"one"}, sh.Args()...)
			shc := Sh{Typ: 1, Slen: 1, Nz: 2, Will: 1, Big: big}
			add("one/S/"+tn(1), "ZZ_C06_smode", []string{"one"}, shc.Args()...)
		}
		seqs := [][]int{{12}, {13, 12}, {4, 3}, {2, 14}, {3, 8, 12}, {14, 15, 4}, {1, 2}, {10, 11, 9}}
		if thorough {
			seqs = append(seqs, []int{5, 6, 7}, []int{3, 3, 3}, []int{12, 12, 12}, []int{15, 1, 3})
		}
		// every type followed by a longer frame (a recycled read buffer is
		// overwritten by it) and by a frame of the same type
		for t := 1; t <= 15; t++ {
			seqs = append(seqs, []int{t, 1}, []int{t, t})
			if thorough {
				for u := 2; u <= 15; u++ {
					if u != t {
						seqs = append(seqs, []int{t, u})
					}
				}
			}
		}
		for _, sq := range seqs {
			add("seq", "ZZ_C06_seq", []string{"seq"}, sq...)
		}
	case "C07":
		for n := 2; n <= nmax(0, 5, 6); n++ {
			for z := 0; z <= 1; z++ {
				if z == 1 && n > nmax(0, 4, 5) {
					continue
				}
				add("frag/A", "ZZ_C07_amode", []string{"frag"}, n, z)
			}
		}
		for t := 1; t <= 15; t++ {
			shapes := smallWireShapes(t, false)
			// all compositions of the minimal valid frame
			add("frag/S/"+tn(t), "ZZ_C07_smode", []string{"frag"}, append([]int{0}, shapes[0].Args()...)...)
			// richer frames: every pair (thorough: triple) of split points
			for _, sh := range shapes[1:] {
				add("splits/"+tn(t), "ZZ_C07_splits", []string{"frag"}, append([]int{0, 2}, sh.Args()...)...)
				if thorough {
					add("splits/"+tn(t), "ZZ_C07_splits", []string{"frag"}, append([]int{1, 2}, sh.Args()...)...)
					add("splits/"+tn(t), "ZZ_C07_splits", []string{"frag"}, append([]int{0, 3}, sh.Args()...)...)
				}
			}
		}
		for _, big := range []int{300, 20000} {
			for kind := 0; kind <= 3; kind++ {
				if big == 20000 && kind == 1 && !thorough {
					continue
				}
				j1 := add("sched", "ZZ_C07_sched", []string{"sched"}, append([]int{kind}, Sh{Typ: 3, Slen: 1, Nz: 2, Big: big, Qos: 1}.Args()...)...)
				j2 := add("sched", "ZZ_C07_sched", []string{"sched"}, append([]int{kind}, Sh{Typ: 1, Slen: 1, Nz: 2, Will: 1, Big: big, Cred: 3}.Args()...)...)
				// one Read per byte: the work is proportional to the frame length
				j1.StepBudget, j2.StepBudget = 400*big+200000, 400*big+200000
			}
		}
		for t := 1; t <= 15; t++ {
			for kind := 0; kind <= 3; kind++ {
				add("sched", "ZZ_C07_sched", []string{"sched"}, append([]int{kind}, smallWireShapes(t, false)[0].Args()...)...)
			}
		}
	case "C08":
		for mode := 0; mode <= 2; mode++ {
			for _, big := range []int{200, 20000, 70000} {
				add("bigcut", "ZZ_C08_bigcut", []string{"bigcut"}, append([]int{mode}, Sh{Typ: 3, Slen: 1, Nz: 2, Big: big, Qos: 1}.Args()...)...)
				add("bigcut", "ZZ_C08_bigcut", []string{"bigcut"}, append([]int{mode}, Sh{Typ: 1, Slen: 1, Nz: 2, Will: 1, Big: big}.Args()...)...)
			}
		}
		for mode := 0; mode <= 2; mode++ {
			for n := 2; n <= nmax(0, 5, 7); n++ {
				add("cut/A", "ZZ_C08_amode", []string{"cut"}, n, mode)
			}
			for t := 1; t <= 15; t++ {
				for _, sh := range smallWireShapes(t, thorough) {
					add("cut/S/"+tn(t), "ZZ_C08_smode", []string{"cut"}, append([]int{mode}, sh.Args()...)...)
				}
			}
		}
	case "C09":
		for t := 1; t <= 15; t++ {
			if t == 12 || t == 13 {
				continue
			}
			for _, sh := range wireShapes(t, thorough) {
				if sh.Flen > 128 && !thorough {
					continue
				}
				add("cut/"+tn(t), "ZZ_C09_cut", nil, sh.Args()...)
			}
			top := umMax(t) - 1
			for n := 0; n <= top; n++ {
				if t == 3 {
					for q := 0; q <= 2; q++ {
						add("cls/"+tn(t), "ZZ_C03_cls", []string{"cls"}, t, n, 9, q)
					}
				} else {
					add("cls/"+tn(t), "ZZ_C03_cls", []string{"cls"}, t, n, 9)
				}
			}
		}
		for t := 1; t <= 15; t++ {
			add("vb5/rl", "ZZ_C09_vb5", []string{"vb5"}, 0, t)
			if t != 12 && t != 13 {
				add("vb5/proplen", "ZZ_C09_vb5", []string{"vb5"}, 1, t)
			}
		}
		add("vb5/subid", "ZZ_C09_vb5", []string{"vb5"}, 2, 8)
		add("vb5/subid", "ZZ_C09_vb5", []string{"vb5"}, 3, 3)
		for _, tb := range [][2]int{{3, 0x01}, {16, 0x01}, {1, 0x17}, {1, 0x19}, {2, 0x25}, {2, 0x28}, {2, 0x29}, {2, 0x2a}} {
			add("bool", "ZZ_C09_bool", []string{"bool"}, tb[0], tb[1])
		}
		for t := 1; t <= 15; t++ {
			if t == 12 || t == 13 {
				continue
			}
			for _, r := range []int{0, 1, 2, 4} {
				add("undef/"+tn(t), "ZZ_C09_undef", []string{"undef"}, t, r)
			}
		}
	case "C10":
		for t := 1; t <= 15; t++ {
			for _, sh := range apiShapes(t, thorough, false) {
				if sh.Flen > 128 && !thorough {
					continue
				}
				for mode := 0; mode <= 2; mode++ {
					if mode == 2 && (sh.Flen > 0 || sh.Big > 0 || sh.Slen > 100) {
						continue // one path per accepted count: small frames only
					}
					add("write/"+tn(t), "ZZ_C10_write", []string{"write"}, append([]int{mode}, sh.Args()...)...)
				}
			}
		}
		// large payloads (second Write, chunked writes ...): short writes at
		// concrete positions in and after the header
		for _, big := range []int{5000, 20000, 70000} {
			sh := Sh{Typ: 3, Slen: 1, Nz: 2, Big: big, Qos: 1}
			add("bigwrite/Publish", "ZZ_C10_bigwrite", []string{"bigwrite"}, sh.Args()...)
			shc := Sh{Typ: 1, Slen: 1, Nz: 2, Will: 1, Big: big}
			add("bigwrite/Connect", "ZZ_C10_bigwrite", []string{"bigwrite"}, shc.Args()...)
		}
		// write, modify, write again
		for t := 1; t <= 15; t++ {
			for k := 0; k < setterCount[t]; k++ {
				sh := Sh{Typ: t, Slen: 1, NList: b2i(hasList(t)), Mask: apiMask(t), NUser: 1, Nz: 1}
				if t == 1 {
					sh.Will, sh.Cred = 1|(1<<6-1)<<1, 3
				}
				if t == 3 {
					sh.Qos = 1
				}
				for _, l := range []int{0, 1, 2} {
					add("rewrite/"+tn(t), "ZZ_C10_rewrite", []string{"rewrite"}, append([]int{k, l}, sh.Args()...)...)
				}
			}
		}
		add("odd", "ZZ_C10_odd", []string{"undefined"}, 0)
		for _, k := range []int{1, 2, 3, 5} {
			for mode := 0; mode <= 2; mode++ {
				add("odd", "ZZ_C10_odd", []string{"write"}, k, mode)
			}
		}
		add("odd", "ZZ_C10_odd", []string{"write"}, 4)
	case "C11":
		for t := 1; t <= 15; t++ {
			for _, sh := range apiShapes(t, thorough, false) {
				if sh.Flen > 128 || sh.Big > 200 || (sh.Fld > 0 && !thorough) {
					continue
				}
				if (t == 1 || t == 2) && sh.Nz == 0 && sh.Mask&(sh.Mask-1) != 0 && !thorough {
					continue // many scalar-presence forks times several encodings
				}
				if t == 8 && sh.NList > 1 && !thorough {
					sh.NList = 1 // every filter's option byte multiplies the paths of Dump by 36
				}
				j := add("det/"+tn(t), "ZZ_C11_det", []string{"det"}, append([]int{b2i(thorough)}, sh.Args()...)...)
				j.NoValidate = true
				if sh.Nz == 1 || sh.Mask == 0 {
					j2 := add("proc/"+tn(t), "ZZ_C11_proc", []string{"proc"}, sh.Args()...)
					j2.NoValidate = true
				}
			}
		}
	case "C12":
		for t := 1; t <= 15; t++ {
			if t == 12 || t == 13 {
				continue
			}
			n := setterCount[t]
			// one more setter on a packet built with symbolic values
			shapes := []Sh{{Typ: t, Slen: 1, NList: b2i(hasList(t))}, {Typ: t, Mask: apiMask(t), Slen: 1, NUser: 1, NList: b2i(hasList(t)), Nz: 1}}
			if t == 1 {
				shapes[1].Will, shapes[1].Cred = 1|(1<<6-1)<<1, 3
			}
			if t == 3 {
				shapes[1].Qos = 1
			}
			for k := 0; k < n; k++ {
				for _, l := range []int{0, 1} {
					for _, sh := range shapes {
						add("step/"+tn(t), "ZZ_C12_step", []string{"step"}, append([]int{k, l}, sh.Args()...)...)
					}
				}
				// long arguments: property lengths and remaining lengths of
				// two and three bytes after the setter
				ls := []int{200}
				if t == 1 || t == 3 || thorough {
					ls = append(ls, 20000)
				}
				if thorough {
					ls = append(ls, 65535)
				}
				for _, l := range ls {
					add("step/"+tn(t), "ZZ_C12_step", []string{"step"}, append([]int{k, l}, shapes[0].Args()...)...)
				}
			}
			// histories from a fresh packet
			for k1 := 0; k1 < n; k1++ {
				for k2 := 0; k2 < n; k2++ {
					if (t == 1 || t == 2) && !thorough && k1 != k2 && (k1+k2)%3 != 0 {
						continue
					}
					add("seq/"+tn(t), "ZZ_C12_seq", []string{"seq"}, t, 1, k1, k2)
					if thorough {
						add("seq/"+tn(t), "ZZ_C12_seq", []string{"seq"}, t, 0, k1, k2, k1)
					}
				}
			}
		}
		add("filter", "ZZ_C12_filter", []string{"filter"}, 0)
		add("filter", "ZZ_C12_filter", []string{"filter"}, 1)
	case "C13":
		for t := 1; t <= 15; t++ {
			for _, sh := range apiShapes(t, thorough, false) {
				if sh.Flen > 128 || sh.Big > 200 || (sh.Fld > 0 && !thorough) {
					continue
				}
				if (t == 1 || t == 2) && sh.Nz == 0 && sh.Mask&(sh.Mask-1) != 0 && !thorough {
					continue
				}
				if t == 8 && sh.NList > 1 && !thorough {
					sh.NList = 1
				}
				for built := 0; built <= 1; built++ {
					add("ro/"+tn(t), "ZZ_C13_ro", []string{"ro"}, append([]int{built}, sh.Args()...)...)
				}
			}
		}
		for t := 0; t <= 15; t++ {
			for n := 0; n <= nmax(t, 4, 6); n++ {
				add("read/"+tn(t), "ZZ_C13_read", []string{"read"}, t, n)
			}
		}
		for _, wm := range []int{0, 1, 63} {
			add("will", "ZZ_C13_will", []string{"will"}, Sh{Typ: 1, Slen: 1, NUser: 1, Will: 1 | wm<<1, Nz: 1}.Args()...)
		}
		add("subid", "ZZ_C13_subid", []string{"subid"}, 0)
		for mode := 1; mode <= 4; mode++ {
			add("willmod", "ZZ_C13_willmod", []string{"willmod"}, append([]int{mode}, Sh{Typ: 1, Slen: 1, NUser: 1, Will: 1 | 63<<1, Nz: 1}.Args()...)...)
		}
	case "C14":
		for t := 0; t <= 15; t++ {
			for n := 0; n <= umMax(t)-2; n++ {
				add("alias/um/"+tn(t), "ZZ_C14_alias_um", nil, t, n)
			}
			for n := 0; n <= nmax(t, 4, 6); n++ {
				add("alias/rp/"+tn(t), "ZZ_C14_alias_rp", nil, t, n)
			}
			if t >= 1 {
				for _, sh := range wireShapes(t, thorough) {
					if sh.Flen > 128 {
						continue
					}
					add("alias/S/"+tn(t), "ZZ_C14_alias_s", []string{"alias"}, sh.Args()...)
				}
				for _, sh := range smallWireShapes(t, thorough) {
					n := setterCount[t]
					if n == 0 {
						add("interf/"+tn(t), "ZZ_C14_interf", []string{"interf"}, append([]int{-1}, sh.Args()...)...)
					}
					for k := 0; k < n; k++ {
						add("interf/"+tn(t), "ZZ_C14_interf", []string{"interf"}, append([]int{k}, sh.Args()...)...)
					}
					if thorough && t != 1 && t != 2 {
						add("interf/"+tn(t), "ZZ_C14_interf", []string{"interf"}, append([]int{-1}, sh.Args()...)...)
					}
				}
			}
		}
		for sc := 0; sc <= 2; sc++ {
			for _, l := range []int{1, 2, 4} {
				if sc == 0 && l == 2 {
					l = 3
				}
				add("reuse", "ZZ_C14_reuse", []string{"reuse"}, sc, l)
			}
		}
		add("reuse", "ZZ_C14_reuse", []string{"reuse"}, 0, 0)
		for t := 0; t <= 15; t++ {
			for n := 0; n <= nmax(t, 5, 7); n++ {
				if (t == 12 || t == 13) && n > 1 {
					continue
				}
				add("after/"+tn(t), "ZZ_C14_after", []string{"after"}, t, n)
			}
		}
		// packets kept across later ReadPacket calls on the same stream
		for t := 1; t <= 15; t++ {
			for _, sh := range smallWireShapes(t, thorough) {
				for n := 1; n <= nmax(t, 3, 5); n++ {
					add("kept/"+tn(t), "ZZ_C14_kept", []string{"kept"}, append([]int{n}, sh.Args()...)...)
				}
			}
		}
	case "C15":
		add("vb/enc", "ZZ_C15_enc", []string{"enc"})
		add("vb/rt", "ZZ_C15_rt", []string{"rt"})
		maxLen := 5
		if thorough {
			maxLen = 7
		}
		for n := 0; n <= maxLen; n++ {
			add("vb/agree", "ZZ_C15_agree", []string{"agree"}, n)
		}
		add("vb/api", "ZZ_C15_api", []string{"api"})
	case "C16":
		for m := 0; m <= 4; m++ {
			add("disp", "ZZ_C16_disp", []string{"disp"}, m)
		}
		add("two", "ZZ_C16_two", []string{"two"})
	case "C17":
		for tl := 0; tl <= 2; tl++ {
			for o := 0; o <= 1; o++ {
				add("wf/pub", "ZZ_C17_pub", []string{"pub"}, tl, o)
			}
			for al := 0; al <= 1; al++ {
				add("wf/pubwire", "ZZ_C17_pubwire", []string{"pubwire"}, tl, al)
			}
		}
		// very long topics (a length that wraps in 16 bits must still count as non-empty)
		for _, tl := range []int{65535, 65536, 131072} {
			add("wf/pub", "ZZ_C17_pub", []string{"pub"}, tl, 0)
		}
		for nf := 0; nf <= 2; nf++ {
			for fl := 0; fl <= 1; fl++ {
				for sid := 0; sid <= 1; sid++ {
					if nf == 2 && !thorough && sid == 1 {
						continue
					}
					add("wf/sub", "ZZ_C17_sub", []string{"sub"}, nf, fl, sid)
				}
				if nf > 0 {
					add("wf/subwire", "ZZ_C17_subwire", []string{"subwire"}, nf, fl)
				}
			}
		}
		add("wf/tf", "ZZ_C17_tf", []string{"tf"}, 0)
		add("wf/tf", "ZZ_C17_tf", []string{"tf"}, 1)
	case "C18":
		lens := []int{1, 2, 9, 10}
		for _, mode := range []int{0, 1} {
			for _, ul := range lens {
				for _, pl := range lens {
					if !thorough && ul != pl && ul+pl != 11 {
						continue
					}
					shapes := []Sh{{Typ: 1, Slen: 1}, {Typ: 1, Slen: 0}, {Typ: 1, Slen: 1, Mask: apiMask(1), NUser: 1, Will: 1 | (1<<6-1)<<1, Nz: 1}}
					if thorough {
						shapes = append(shapes, Sh{Typ: 1, Slen: 2, Mask: 6, NUser: 2, Will: 1, Nz: 1}, Sh{Typ: 1, Slen: 9, Mask: 2, Nz: 1})
					}
					for _, sh := range shapes {
						add("ni/connect", "ZZ_C18_ni", []string{"ni"}, append([]int{mode, ul, pl}, sh.Args()...)...)
					}
				}
			}
		}
		for w := 1; w <= 2; w++ {
			for _, sh := range []Sh{{Typ: 1, Slen: 0, Mask: apiMask(1), Will: 1 | (1<<6-1)<<1, Nz: 3}, {Typ: 1, Slen: 1, Mask: 6, Will: 1 | 24<<1, NUser: 1, Nz: 3}} {
				add("ni/window", "ZZ_C18_window", nil, append([]int{w}, sh.Args()...)...)
			}
		}
	case "C19":
		add("zero", "ZZ_C19_zero", []string{"zero"})
		for t := 0; t <= 15; t++ {
			top := umMax(t) - 4
			if thorough {
				top = umMax(t) - 3
			}
			for n := 0; n <= top; n++ {
				add("um/"+tn(t), "ZZ_C19_um", []string{"um"}, t, n)
			}
		}
		for m := 0; m <= nmax(0, 4, 5); m++ {
			add("rp", "ZZ_C19_rp", []string{"rp"}, m)
		}
		for k := 0; k <= 6; k++ {
			add("bytes", "ZZ_C19_bytes", []string{"bytes"}, k)
		}
		for t := 1; t <= 15; t++ {
			n := setterCount[t]
			for k1 := 0; k1 < n; k1++ {
				add("seq/"+tn(t), "ZZ_C19_seq", []string{"seq"}, t, 1, k1, (k1+1)%n)
			}
		}
	}
	if prop == "C19" {
		// renderers are cheap: a tight budget turns a non-terminating
		// renderer into a violation quickly
		for _, j := range jobs {
			j.StepBudget = 40000
		}
		// many list elements: positions with two, three and four digits
		for t := 1; t <= 15; t++ {
			if t == 12 || t == 13 {
				continue
			}
			for _, n := range []int{11, 101, 1001} {
				if n == 1001 && !thorough && t != 3 && t != 8 && t != 10 && t != 1 {
					continue
				}
				sh := Sh{Typ: t, Slen: 1, NUser: n, NList: n * b2i(hasList(t) || t == 3), Nz: 3}
				if t == 1 {
					sh.Will = 1
				}
				j := add("many/"+tn(t), "ZZ_C19_many", []string{"many"}, sh.Args()...)
				j.StepBudget = 40000 + 4000*n
			}
		}
	}
	return jobs
}

var setterCount = map[int]int{1: 20, 2: 19, 3: 14, 4: 4, 5: 4, 6: 4, 7: 4, 8: 4, 9: 4, 10: 3, 11: 4, 14: 5, 15: 5}

func cmdSelftest(args []string) int {
	w, err := loadWorld()
	if err != nil {
		fmt.Println("selftest: cannot load:", err)
		return 2
	}
	fmt.Printf("selftest: loaded %d library functions\n", len(w.libFunctions()))
	for _, k := range []string{"cvc5", "z3"} {
		s, err := NewSolver(k, 10000)
		if err != nil {
			fmt.Println("selftest: solver", k, err)
			return 2
		}
		tt := NewTermTable()
		x := tt.Var("x", 8)
		s.Assert(tt.Eq(tt.Bin(OAdd, x, tt.Const(8, 1)), tt.Const(8, 0)))
		if r := s.Check(); r != "sat" {
			fmt.Println("selftest: solver", k, "answered", r)
			return 2
		}
		if v := s.ValuesOf([]*Term{x})[0]; v != 255 {
			fmt.Println("selftest: solver", k, "model", v)
			return 2
		}
		s.Close()
	}
	if err := rewriteSelfTest(30000, 1); err != nil {
		fmt.Println("selftest:", err)
		return 2
	}
	fmt.Println("selftest: term rewrites agree with literal terms on 30000 random expressions")
	fmt.Println("selftest: ok")
	return 0
}
