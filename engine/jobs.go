package main

import "fmt"

var propOrder = []string{"C01", "C02", "C03", "C04", "C05", "C06", "C07", "C08", "C09", "C10", "C11", "C12", "C13", "C14", "C15", "C16", "C17", "C18", "C19"}

type PropMeta struct {
	Level       string
	Explanation string
	Bounds      map[string]string
	Outside     string
	Assumptions []string
	Intrinsics  []string
}

var commonAssumptions = []string{
	"go/ssa (golang.org/x/tools v0.29.0) translates the Go source of /repo faithfully",
	"the engine's semantics of the SSA instruction kinds used (mitigated: sampled paths are re-executed natively and every observation compared)",
	"slice/string lengths, make sizes and indices are concretised by solver enumeration; contents and scalars stay symbolic",
	"cvc5 1.0.3 answers are correct (mitigated: sat models are re-evaluated by the engine, unsat answers are cross-checked with z3 4.8.12)",
}

var commonIntrinsics = []string{
	"fmt.Sprintf/Fprintf/Fprintln/Errorf: deterministic function of format and operands, result kept as a rope; operands with Error()/String() methods have them executed symbolically",
	"errors.New/Is/Unwrap, strings.Builder, bytes.Repeat, strconv.FormatInt, time.Duration.String",
	"io.EOF and friends are distinct error objects; package initialisers of dependencies are not run",
}

var indirectHarness = map[string]string{}

var propMeta = map[string]*PropMeta{}

func meta(id, level, expl string, quick, thorough, outside string, extraAssume ...string) {
	propMeta[id] = &PropMeta{Level: level, Explanation: expl,
		Bounds:      map[string]string{"quick": quick, "thorough": thorough},
		Outside:     outside,
		Assumptions: append(append([]string{}, commonAssumptions...), extraAssume...),
		Intrinsics:  commonIntrinsics}
}

func init() {
	meta("C15", "model_checking",
		"The unexported variable-byte-integer codec (fill, width, UnmarshalBinary, ReadFrom) and buffer.get are executed symbolically. Encoding: one symbolic 32-bit value constrained to 0..268435455, compared byte for byte with shift/mask arithmetic written in the harness; the encoder loop forks into the four size classes and each class is one solver query over all its values, so the whole 2^28 domain is decided. Decoding: all byte sequences of length 0..5 with every byte symbolic; both decoders must agree with a specification reading.",
		"value: all 2^28; byte sequences: every length 0..5, all bytes symbolic; subscription identifier 1..268435455 through SetSubscriptionID/WriteTo/ReadPacket",
		"same (the domain is already complete); plus sequences of length 6 and 7",
		"values above 268435455 handed to the encoder (not representable in MQTT)")
}

func jobsFor(prop, tier string) []*Job {
	thorough := tier == "thorough"
	var jobs []*Job
	add := func(family, fn string, reach []string, args ...int) *Job {
		j := &Job{Prop: prop, Family: family, Fn: fn, Args: args, Reach: reach}
		jobs = append(jobs, j)
		return j
	}
	switch prop {
	case "C15":
		add("vb/enc", "ZZ_C15_enc", []string{"enc"})
		add("vb/rt", "ZZ_C15_rt", []string{"rt"})
		maxLen := 5
		if thorough {
			maxLen = 7
		}
		for n := 0; n <= maxLen; n++ {
			add("vb/agree", "ZZ_C15_agree", []string{"agree"}, n)
		}
		add("vb/api", "ZZ_C15_api", []string{"api"})
	}
	return jobs
}

func cmdSelftest(args []string) int {
	w, err := loadWorld()
	if err != nil {
		fmt.Println("selftest: cannot load:", err)
		return 2
	}
	fmt.Printf("selftest: loaded %d library functions\n", len(w.libFunctions()))
	for _, k := range []string{"cvc5", "z3"} {
		s, err := NewSolver(k, 10000)
		if err != nil {
			fmt.Println("selftest: solver", k, err)
			return 2
		}
		tt := NewTermTable()
		x := tt.Var("x", 8)
		s.Assert(tt.Eq(tt.Bin(OAdd, x, tt.Const(8, 1)), tt.Const(8, 0)))
		if r := s.Check(); r != "sat" {
			fmt.Println("selftest: solver", k, "answered", r)
			return 2
		}
		if v := s.ValuesOf([]*Term{x})[0]; v != 255 {
			fmt.Println("selftest: solver", k, "model", v)
			return 2
		}
		s.Close()
	}
	if err := rewriteSelfTest(30000, 1); err != nil {
		fmt.Println("selftest:", err)
		return 2
	}
	fmt.Println("selftest: term rewrites agree with literal terms on 30000 random expressions")
	fmt.Println("selftest: ok")
	return 0
}
