package main

import (
	"crypto/sha1"
	"encoding/json"
	"flag"
	"fmt"
	"os"
	"path/filepath"
	"runtime"
	"runtime/debug"
	"runtime/pprof"
	"sort"
	"strconv"
	"strings"
	"time"
)

func usage() {
	fmt.Fprintln(os.Stderr, `usage:
  verif run -prop C04 [-tier quick|thorough] [-seed N] [-workers N] [-v]
  verif job -fn ZZ_x -args 1,2 [-v] [-order fwdrev] [-split N]
  verif replay -file <replay.json>
  verif selftest
  verif list`)
	os.Exit(2)
}

func main() {
	// the live heap is dominated by the SSA of all dependencies; collecting
	// less often is worth far more than the memory it costs
	if os.Getenv("GOGC") == "" {
		debug.SetGCPercent(800)
	}
	if len(os.Args) < 2 {
		usage()
	}
	switch os.Args[1] {
	case "run":
		os.Exit(cmdRun(os.Args[2:]))
	case "job":
		os.Exit(cmdJob(os.Args[2:]))
	case "replay":
		os.Exit(cmdReplay(os.Args[2:]))
	case "selftest":
		os.Exit(cmdSelftest(os.Args[2:]))
	case "list":
		for _, p := range propOrder {
			for _, t := range []string{"quick", "thorough"} {
				fmt.Printf("%s %s: %d jobs\n", p, t, len(jobsFor(p, t)))
			}
		}
	default:
		usage()
	}
}

func defaultWorkers() int {
	n := runtime.NumCPU()
	if n > 16 {
		n = 16
	}
	if n < 1 {
		n = 1
	}
	return n
}

func parseArgs(s string) []int {
	var out []int
	if s == "" {
		return out
	}
	for _, a := range strings.Split(s, ",") {
		v, err := strconv.Atoi(strings.TrimSpace(a))
		if err != nil {
			fmt.Fprintln(os.Stderr, "bad -args:", err)
			os.Exit(2)
		}
		out = append(out, v)
	}
	return out
}

// cmdJob runs one harness function (debugging aid).
func cmdJob(args []string) int {
	fs := flag.NewFlagSet("job", flag.ExitOnError)
	fn := fs.String("fn", "", "harness function")
	argStr := fs.String("args", "", "comma separated int args")
	verbose := fs.Bool("v", false, "verbose")
	order := fs.String("order", "", "map order mode")
	split := fs.Int("split", 0, "split depth")
	workers := fs.Int("workers", defaultWorkers(), "workers")
	budget := fs.Int("budget", 0, "step budget")
	native := fs.Bool("native", false, "validate sampled paths natively")
	x := fs.Int("x", 0, "cross-check every n-th unsat")
	maxPaths := fs.Int("maxpaths", 0, "")
	prof := fs.String("cpuprofile", "", "write cpu profile")
	fs.Parse(args)
	t0 := time.Now()
	w, err := loadWorld()
	if err != nil {
		fmt.Fprintln(os.Stderr, "cannot build:", err)
		return 2
	}
	fmt.Printf("load+ssa %.1fs\n", time.Since(t0).Seconds())
	if *prof != "" {
		f, _ := os.Create(*prof)
		pprof.StartCPUProfile(f)
		defer pprof.StopCPUProfile()
	}
	cfg := &RunConfig{Tier: "quick", Workers: *workers, Verbose: *verbose, TLimitMs: 60000, ValidateCap: 50, XEvery: *x, MaxPaths: *maxPaths}
	job := &Job{Prop: "CXX", Family: *fn, Fn: *fn, Args: parseArgs(*argStr), OrderMode: *order, Split: *split, StepBudget: *budget}
	t1 := time.Now()
	results, _ := runPool(w, cfg, []*Job{job})
	agg := aggregate(results)
	fmt.Printf("explore %.2fs  jobs %d paths %d pruned %d decisions %d maxdepth %d queries %d (sat %d unsat %d unknown %d) solver %.2fs modelhits %d syntactic %d xchecked %d maxsteps %d maxalloc %d\n",
		time.Since(t1).Seconds(), len(results), agg.Paths, agg.Pruned, agg.St.Decisions, agg.St.MaxDepth, agg.Queries[0], agg.Queries[1], agg.Queries[2], agg.Queries[3],
		agg.SolverT.Seconds(), agg.St.ModelHits, agg.St.Syntactic, agg.St.XChecked, agg.MaxSteps, agg.MaxAlloc)
	var keys []string
	for k := range agg.Outcomes {
		keys = append(keys, k)
	}
	sort.Strings(keys)
	for _, k := range keys {
		fmt.Printf("  %7d  %s\n", agg.Outcomes[k], k)
	}
	var sigs []string
	for s := range agg.Viols {
		sigs = append(sigs, s)
	}
	sort.Strings(sigs)
	for _, s := range sigs {
		g := agg.Viols[s]
		fmt.Printf("  VIOL x%d %s  where=%s model=%s\n", g.Count, s, g.First.Where, modelStr(g.First.Model))
	}
	for _, m := range agg.Inconc {
		fmt.Println("  INCONCLUSIVE:", m)
	}
	fmt.Printf("  reach: %v\n", keysOf(agg.Reach))
	{
		type kv struct {
			k string
			v int
		}
		var fs []kv
		for k, v := range agg.Funcs {
			if strings.HasPrefix(k, "fork@") {
				fs = append(fs, kv{k, v})
			}
		}
		sort.Slice(fs, func(i, j int) bool { return fs[i].v > fs[j].v })
		for i := 0; i < len(fs) && i < 8; i++ {
			fmt.Printf("  forks %7d  %s\n", fs[i].v, fs[i].k[5:])
		}
		fmt.Printf("  narrowed decisions: %d\n", agg.St.Narrowed)
	}
	if *verbose {
		for _, c := range agg.Samples {
			fmt.Printf("  sample: %s %v\n", modelStr(c.Model), c.Emits)
		}
	}
	if *native {
		nat, err := NewNative()
		if err != nil {
			fmt.Println(err)
			return 2
		}
		defer nat.Close()
		cases := append([]ReplayCase{}, agg.Validate...)
		for _, s := range sigs {
			cases = append(cases, agg.Viols[s].First)
		}
		for i := range cases {
			cases[i].ID = i
		}
		res, err := nat.Run(cases)
		if err != nil {
			fmt.Println("native:", err)
			return 2
		}
		bad := 0
		for _, c := range cases {
			r := res[c.ID]
			ok := false
			if c.Outcome == "ok" {
				ok = r.Outcome == "ok" && sameEmits(c.Emits, r.Emits)
			} else {
				ok = confirms(c, r)
			}
			if !ok {
				bad++
				fmt.Printf("  NATIVE MISMATCH: expect %s %v\n      got %s %v\n      model %s\n", c.Outcome, c.Emits, r.Outcome, r.Emits, modelStr(c.Model))
			}
		}
		fmt.Printf("native: %d cases, %d mismatches (build %.1fs)\n", len(cases), bad, nat.BuildS)
	}
	if len(agg.Inconc) > 0 {
		return 2
	}
	return 0
}

func keysOf(m map[string]bool) []string {
	var ks []string
	for k := range m {
		ks = append(ks, k)
	}
	sort.Strings(ks)
	return ks
}

func modelStr(m map[string]uint64) string {
	var ks []string
	for k := range m {
		ks = append(ks, k)
	}
	sort.Strings(ks)
	var sb strings.Builder
	for i, k := range ks {
		if i > 40 {
			fmt.Fprintf(&sb, "… (%d more)", len(ks)-i)
			break
		}
		fmt.Fprintf(&sb, "%s=%#x ", k, m[k])
	}
	return sb.String()
}

// Agg is the union of job results.
type Agg struct {
	JobResult
	AbortedJobs int
	Jobs        int
	SubJobs     int
	Families    map[string]bool
}

func aggregate(results []*JobResult) *Agg {
	a := &Agg{Families: map[string]bool{}}
	a.Outcomes = map[string]int{}
	a.Viols = map[string]*ViolGroup{}
	a.Reach = map[string]bool{}
	a.Funcs = map[string]int{}
	for _, r := range results {
		if r.Job.prefix == nil {
			a.Jobs++
		} else {
			a.SubJobs++
		}
		a.Families[r.Job.Family] = true
		if r.Aborted {
			a.AbortedJobs++
		}
		a.Paths += r.Paths
		a.Pruned += r.Pruned
		for k, v := range r.Outcomes {
			a.Outcomes[k] += v
		}
		for s, g := range r.Viols {
			if h, ok := a.Viols[s]; ok {
				h.Count += g.Count
				if len(h.More) < 4 {
					h.More = append(h.More, g.First)
				}
			} else {
				cp := *g
				a.Viols[s] = &cp
			}
		}
		a.Validate = append(a.Validate, r.Validate...)
		if len(a.Samples) < 6 {
			a.Samples = append(a.Samples, r.Samples...)
		}
		for k := range r.Reach {
			a.Reach[k] = true
		}
		a.Inconc = append(a.Inconc, r.Inconc...)
		a.St.Decisions += r.St.Decisions
		a.St.MaxDepth = max(a.St.MaxDepth, r.St.MaxDepth)
		a.St.ModelHits += r.St.ModelHits
		a.St.Syntactic += r.St.Syntactic
		a.St.XChecked += r.St.XChecked
		a.St.XDisagree += r.St.XDisagree
		a.St.XUnknown += r.St.XUnknown
		a.St.ModelChecks += r.St.ModelChecks
		a.St.FanoutCapHits += r.St.FanoutCapHits
		a.St.Fallbacks += r.St.Fallbacks
		a.St.Narrowed += r.St.Narrowed
		for i := range a.Queries {
			a.Queries[i] += r.Queries[i]
		}
		a.XQueries += r.XQueries
		a.SolverT += r.SolverT
		a.Steps += r.Steps
		a.MaxSteps = max(a.MaxSteps, r.MaxSteps)
		a.MaxAlloc = max(a.MaxAlloc, r.MaxAlloc)
		for k, v := range r.Funcs {
			a.Funcs[k] += v
		}
	}
	a.Inconc = dedupStrings(a.Inconc)
	return a
}

// ---------------------------------------------------------------- known findings

type Finding struct {
	Kind string // known / fixed
	Prop string
	Sig  string
	Text string
}

func loadFindings() []Finding {
	var out []Finding
	b, err := os.ReadFile(filepath.Join(verifHome(), "known_findings.txt"))
	if err != nil {
		return nil
	}
	for _, l := range strings.Split(string(b), "\n") {
		l = strings.TrimSpace(l)
		if l == "" || strings.HasPrefix(l, "#") {
			continue
		}
		var f Finding
		switch {
		case strings.HasPrefix(l, "known:"):
			f.Kind = "known"
			l = strings.TrimSpace(l[6:])
		case strings.HasPrefix(l, "fixed:"):
			f.Kind = "fixed"
			l = strings.TrimSpace(l[6:])
		default:
			continue
		}
		for _, tok := range strings.Fields(l) {
			if strings.HasPrefix(tok, "property=") {
				f.Prop = tok[9:]
			} else if strings.HasPrefix(tok, "sig=") {
				f.Sig = tok[4:]
			}
		}
		f.Text = l
		out = append(out, f)
	}
	return out
}

// ---------------------------------------------------------------- run a property check

func cmdRun(args []string) int {
	fs := flag.NewFlagSet("run", flag.ExitOnError)
	prop := fs.String("prop", "", "property id")
	tier := fs.String("tier", envOr("VERIF_TIER", "quick"), "quick|thorough")
	seedDef, _ := strconv.ParseInt(envOr("VERIF_SEED", "1"), 10, 64)
	seed := fs.Int64("seed", seedDef, "seed")
	workers := fs.Int("workers", defaultWorkers(), "workers")
	verbose := fs.Bool("v", false, "verbose")
	fs.Parse(args)
	meta, ok := propMeta[*prop]
	if !ok {
		fmt.Fprintln(os.Stderr, "unknown property", *prop)
		return 2
	}
	t0 := time.Now()
	w, err := loadWorld()
	if err != nil {
		fmt.Fprintln(os.Stderr, "INCONCLUSIVE: cannot build /repo with the harness:", err)
		return 2
	}
	loadS := time.Since(t0).Seconds()
	cfg := &RunConfig{Tier: *tier, Seed: *seed, Workers: *workers, Verbose: *verbose}
	if *tier == "thorough" {
		cfg.StopAfter = 40 * time.Minute
		cfg.NarrowAfter = 1000000
		cfg.HardStop = 150 * time.Minute
		cfg.TLimitMs = 60000
		cfg.XEvery = 1
		cfg.ValidateCap = 1 << 30
	} else {
		cfg.TLimitMs = 30000
		cfg.XEvery = 10
		cfg.ValidateCap = 40
		cfg.StopAfter = 4 * time.Minute
		cfg.NarrowAfter = 40000
		cfg.HardStop = 15 * time.Minute
	}
	jobs := jobsFor(*prop, *tier)
	if f := os.Getenv("VERIF_FAMILY"); f != "" {
		// debugging aid: only the job families with this prefix
		var sel []*Job
		for _, j := range jobs {
			if strings.HasPrefix(j.Family, f) {
				sel = append(sel, j)
			}
		}
		jobs = sel
	}
	if len(jobs) == 0 {
		fmt.Fprintln(os.Stderr, "no jobs for", *prop, *tier)
		return 2
	}
	t1 := time.Now()
	results, err := runPool(w, cfg, jobs)
	if err != nil {
		fmt.Fprintln(os.Stderr, "INCONCLUSIVE:", err)
		return 2
	}
	agg := aggregate(results)
	exploreS := time.Since(t1).Seconds()

	// vacuity: every marker a job family declares must have been reached
	var missing []string
	for _, j := range jobs {
		for _, m := range j.Reach {
			if !agg.Reach[m] {
				missing = append(missing, j.Family+":"+m)
			}
		}
	}
	missing = dedupStrings(missing)
	if agg.AbortedJobs > 0 {
		// exploration was cut short after a violation had been found
		missing = nil
	}

	// native: per-path translation validation + replay of violations
	var sigs []string
	for s := range agg.Viols {
		sigs = append(sigs, s)
	}
	sort.Strings(sigs)
	cases := append([]ReplayCase{}, agg.Validate...)
	nValidate := len(cases)
	for _, s := range sigs {
		cases = append(cases, agg.Viols[s].First)
	}
	for i := range cases {
		cases[i].ID = i
	}
	nat, err := NewNative()
	if err != nil {
		fmt.Fprintln(os.Stderr, "INCONCLUSIVE:", err)
		return 2
	}
	defer nat.Close()
	t2 := time.Now()
	natRes, err := nat.Run(cases)
	if err != nil {
		fmt.Fprintln(os.Stderr, "INCONCLUSIVE: native run failed:", err)
		return 2
	}
	nativeS := time.Since(t2).Seconds()
	validated, mismatches := 0, 0
	var mismatchMsgs []string
	for _, c := range cases[:nValidate] {
		r := natRes[c.ID]
		if r.Outcome == "ok" && sameEmits(c.Emits, r.Emits) {
			validated++
		} else {
			mismatches++
			if len(mismatchMsgs) < 5 {
				mismatchMsgs = append(mismatchMsgs, fmt.Sprintf("%s%v model{%s}: engine ok %v / native %s %v", c.Fn, c.Args, modelStr(c.Model), c.Emits, r.Outcome, r.Emits))
			}
		}
	}

	findings := loadFindings()
	exit := 0
	nViol, nKnown, nUnconfirmed, nNotReproduced := 0, 0, 0, 0
	var violOut []map[string]interface{}

	// The lockset model does not follow every happens-before edge. When the
	// library synchronises at all, a sample of the explored paths is therefore
	// also run from 8 goroutines in the race-detector build - a complement to,
	// not a replacement of, the symbolic write-set check.
	raceSampled := 0
	if w.usesSync && len(sigs) == 0 {
		limit := 8
		if *tier == "thorough" {
			limit = 40
		}
		seenFam := map[string]int{}
		for _, c := range cases[:nValidate] {
			ind, ok := indirectHarness[c.Fn]
			if !ok || ind.Kind != "race" || raceSampled >= limit {
				continue
			}
			key := fmt.Sprint(c.Fn, c.Args)
			if seenFam[key] >= 1 {
				continue
			}
			seenFam[key]++
			cc := c
			cc.Fn = ind.Alt
			cc.ID = 0
			found, report, err := nat.RunRace(cc)
			raceSampled++
			if err != nil {
				fmt.Fprintln(os.Stderr, "INCONCLUSIVE: race-detector sample:", err)
				nUnconfirmed++
				break
			}
			if found {
				sig := *prop + "/race-sample/" + c.Fn
				cc.Outcome = "race"
				cc.Detail = report
				g := &ViolGroup{Label: "data race reported by the race detector on a sampled path (the lockset model had not flagged it)", Count: 1, First: cc}
				agg.Viols[sig] = g
				sigs = append(sigs, sig)
				cases = append(cases, cc)
				natRes[len(cases)-1] = NativeResult{Outcome: "race"}
				cases[len(cases)-1].ID = len(cases) - 1
				break
			}
		}
	}
	replayDir := filepath.Join(verifHome(), "replays", *prop)
	for i, s := range sigs {
		g := agg.Viols[s]
		c := cases[nValidate+i]
		r := natRes[c.ID]
		entry := map[string]interface{}{"signature": s, "paths": g.Count, "where": g.First.Where, "native_outcome": r.Outcome}
		if g.Order || strings.HasPrefix(g.Label, "monitor:") {
			// cannot be forced natively (map iteration order) or is an
			// engine-level monitor: confirmed through the dedicated native
			// demonstration of the harness if there is one
			entry["native_note"] = "not directly replayable (map order / write-set monitor)"
			if !confirmIndirect(nat, g, &c, entry) {
				if ind, ok := indirectHarness[c.Fn]; ok && ind.Kind == "race" && w.usesSync && entry["native_note"] == "not directly replayable (map order / write-set monitor)" {
					// The library synchronises with sync/atomic or locks. The
					// lockset model does not follow every happens-before edge
					// (see locks.go); the race detector does, ran the same
					// operations from 8 goroutines to completion and found
					// nothing: the monitor's report is not a violation.
					nNotReproduced++
					entry["status"] = "lockset-report-not-reproduced-by-race-detector"
					violOut = append(violOut, entry)
					fmt.Printf("NOTE property=%s sig=%s: the lockset monitor flagged a shared write; the race-detector build ran the operations concurrently and reported no race (synchronised by means the lockset model does not follow)\n", *prop, s)
					continue
				}
				nUnconfirmed++
				entry["status"] = "unconfirmed"
				violOut = append(violOut, entry)
				fmt.Printf("UNCONFIRMED property=%s sig=%s (%d paths): found by the engine's monitor / under a non-default schedule, not reproduced natively: %v\n", *prop, s, g.Count, entry["native_outcome"])
				continue
			}
		} else if !confirms(c, r) && !retryOthers(nat, g, &c, &r) {
			nUnconfirmed++
			entry["status"] = "ENCODING-MISMATCH"
			violOut = append(violOut, entry)
			fmt.Printf("ENCODING-MISMATCH property=%s sig=%s engine=%s native=%s model{%s}\n", *prop, s, c.Outcome, r.Outcome, modelStr(c.Model))
			continue
		}
		known := false
		for _, f := range findings {
			if f.Kind == "known" && f.Prop == *prop && f.Sig == s {
				known = true
				fmt.Printf("KNOWN-FINDING: %s\n", f.Text)
			}
		}
		if known {
			nKnown++
			entry["status"] = "known-finding"
			violOut = append(violOut, entry)
			continue
		}
		if _, indirect := entry["native_demonstration"]; !indirect {
			entry["native_outcome"] = r.Outcome
		}
		nViol++
		os.MkdirAll(replayDir, 0o755)
		h := sha1.Sum([]byte(s))
		path := filepath.Join(replayDir, fmt.Sprintf("%x.json", h[:6]))
		rep := map[string]interface{}{"property": *prop, "signature": s, "paths_with_this_signature": g.Count, "case": c, "native_outcome": entry["native_outcome"], "native_demonstration": entry["native_demonstration"], "native_emits": r.Emits,
			"replay_cmd": fmt.Sprintf("cd %s && ./check --replay %s", verifHome(), path)}
		js, _ := json.MarshalIndent(rep, "", " ")
		os.WriteFile(path, js, 0o644)
		entry["status"] = "violation"
		entry["replay"] = path
		violOut = append(violOut, entry)
		fmt.Printf("VIOLATION property=%s replay=%s\n", *prop, path)
		nativeTxt := r.Outcome
		if v, ok := entry["native_outcome"].(string); ok {
			nativeTxt = v
		}
		if d, ok := entry["native_demonstration"].(string); ok {
			nativeTxt = d + ": " + nativeTxt
		}
		if len(nativeTxt) > 300 {
			nativeTxt = nativeTxt[:300] + "…"
		}
		fmt.Printf("  signature: %s (%d paths)  native: %s\n", s, g.Count, nativeTxt)
		exit = 1
	}

	inconclusive := len(agg.Inconc) > 0 || len(missing) > 0 || mismatches > 0 || nUnconfirmed > 0 || agg.AbortedJobs > 0
	for _, m := range agg.Inconc {
		fmt.Println("INCONCLUSIVE:", firstLine(m))
	}
	for _, m := range missing {
		fmt.Println("INCONCLUSIVE: vacuity marker never reached:", m)
	}
	for _, m := range mismatchMsgs {
		fmt.Println("INCONCLUSIVE: translation validation mismatch:", m)
	}

	// per-family statistics
	famPaths := map[string]int{}
	famWall := map[string]float64{}
	for _, r := range results {
		famPaths[r.Job.Family] += r.Paths
		famWall[r.Job.Family] += r.Wall.Seconds()
	}
	famStats := map[string]interface{}{}
	for f, n := range famPaths {
		famStats[f] = map[string]interface{}{"paths": n, "worker_seconds": round2(famWall[f])}
	}
	// evidence
	wall := time.Since(t0).Seconds()
	var samples []interface{}
	for _, c := range agg.Samples {
		samples = append(samples, map[string]interface{}{"harness": c.Fn, "args": c.Args, "inputs": modelStr(c.Model), "outcome": c.Outcome, "observations": c.Emits})
	}
	if len(samples) == 0 {
		for _, s := range sigs {
			c := agg.Viols[s].First
			samples = append(samples, map[string]interface{}{"harness": c.Fn, "args": c.Args, "inputs": modelStr(c.Model), "outcome": c.Outcome})
		}
	}
	libFns := w.libFunctions()
	encoded := map[string]int{}
	for k := range agg.Funcs {
		sk := shortFn(k)
		if n, ok := libFns[sk]; ok {
			encoded[sk] = n
		}
	}
	fams := keysOf(agg.Families)
	var forkSites []string
	{
		type kv struct {
			k string
			v int
		}
		var fs []kv
		for k, v := range agg.Funcs {
			if strings.HasPrefix(k, "fork@") {
				fs = append(fs, kv{k[5:], v})
			}
		}
		sort.Slice(fs, func(i, j int) bool { return fs[i].v > fs[j].v || (fs[i].v == fs[j].v && fs[i].k < fs[j].k) })
		for i := 0; i < len(fs) && i < 8; i++ {
			forkSites = append(forkSites, fmt.Sprintf("%s: %d", fs[i].k, fs[i].v))
		}
	}
	if agg.St.Narrowed > 0 {
		fmt.Printf("NOTE property=%s: %d decisions kept one alternative only (the layout of numbers and table names rendered into byte slices, or a job beyond %d paths): the exploration is bounded there, not exhaustive\n", *prop, agg.St.Narrowed, cfg.NarrowAfter)
	}
	cov := map[string]interface{}{
		"states":                                    max(agg.Paths, 1),
		"transitions":                               max(agg.St.Decisions, 1),
		"traces_validated_against_impl":             validated,
		"samples":                                   samples,
		"exhaustive":                                !inconclusive && agg.St.Narrowed == 0,
		"explanation":                               meta.Explanation,
		"bounds":                                    meta.Bounds[*tier],
		"outside_the_claim":                         meta.Outside,
		"jobs":                                      agg.Jobs,
		"sub_jobs_from_splitting":                   agg.SubJobs,
		"job_families":                              fams,
		"per_family":                                famStats,
		"paths_pruned_by_assumptions":               agg.Pruned,
		"path_outcomes":                             agg.Outcomes,
		"functions_encoded":                         encoded,
		"functions_encoded_count":                   len(encoded),
		"library_functions_total":                   len(libFns),
		"queries":                                   map[string]int{"total": agg.Queries[0], "sat": agg.Queries[1], "unsat": agg.Queries[2], "unknown": agg.Queries[3], "decided_by_current_model": agg.St.ModelHits, "decided_syntactically": agg.St.Syntactic},
		"solver_time_s":                             round2(agg.SolverT.Seconds()),
		"solvers":                                   []string{"cvc5 1.0.3 --incremental (all queries)", "z3 4.8.12 (cross-check of unsat answers)"},
		"cross_solver_checked":                      agg.St.XChecked,
		"cross_solver_disagreements":                agg.St.XDisagree,
		"solver_models_checked_by_evaluator":        agg.St.ModelChecks,
		"max_library_steps_on_a_path":               agg.MaxSteps,
		"max_library_alloc_bytes_on_a_path":         agg.MaxAlloc,
		"vacuity_markers_reached":                   keysOf(agg.Reach),
		"vacuity_markers_missing":                   missing,
		"translation_validation_mismatches":         mismatches,
		"violations":                                violOut,
		"known_findings_matched":                    nKnown,
		"inconclusive":                              agg.Inconc,
		"fanout_cap_hits":                           agg.St.FanoutCapHits,
		"decisions_narrowed_to_one_alternative":     agg.St.Narrowed,
		"functions_with_most_new_symbolic_branches": forkSites,
		"jobs_not_explored_after_a_violation_and_time_budget": agg.AbortedJobs,
		"queries_answered_by_second_solver_after_timeout":     agg.St.Fallbacks,
		"time_s":     map[string]float64{"load_and_ssa": round2(loadS), "explore": round2(exploreS), "native_build_and_run": round2(nativeS)},
		"intrinsics": meta.Intrinsics,
		"technique":  "bounded symbolic execution of go/ssa of /repo's working tree; every branch feasibility and assertion decided by SMT (QF_BV)",
	}
	ev := map[string]interface{}{
		"property_id": *prop,
		"tier":        *tier,
		"seed":        *seed,
		"level":       meta.Level,
		"coverage":    cov,
		"assumptions": meta.Assumptions,
		"wall_s":      round2(wall),
		"violations":  nViol,
	}
	js, _ := json.MarshalIndent(ev, "", " ")
	os.MkdirAll(filepath.Join(verifHome(), "evidence"), 0o755)
	if err := os.WriteFile(filepath.Join(verifHome(), "evidence", *prop+".json"), js, 0o644); err != nil {
		fmt.Fprintln(os.Stderr, "cannot write evidence:", err)
		return 2
	}
	fmt.Printf("%s %s: %d jobs (+%d sub-jobs), %d paths, %d decisions, %d queries (%.1fs solver), %d/%d paths validated natively, %d violation signatures (%d known), wall %.1fs\n",
		*prop, *tier, agg.Jobs, agg.SubJobs, agg.Paths, agg.St.Decisions, agg.Queries[0], agg.SolverT.Seconds(), validated, nValidate, len(sigs), nKnown, wall)
	if exit == 1 {
		return 1
	}
	if inconclusive {
		return 2
	}
	return 0
}

func firstLine(s string) string {
	if i := strings.IndexByte(s, '\n'); i >= 0 {
		return s[:i]
	}
	return s
}

func round2(f float64) float64 { return float64(int(f*100+0.5)) / 100 }

// retryOthers replays further instances of a violation signature (found by
// other jobs) when the first one does not reproduce natively.
func retryOthers(nat *Native, g *ViolGroup, c *ReplayCase, r *NativeResult) bool {
	for _, alt := range g.More {
		alt.ID = 0
		res, err := nat.Run([]ReplayCase{alt})
		if err != nil {
			return false
		}
		if confirms(alt, res[0]) {
			*c, *r = alt, res[0]
			return true
		}
	}
	return false
}

// confirmIndirect handles violations that cannot be reproduced by feeding
// the model to the same harness natively: map iteration orders (the runtime
// picks them), other processes, and the write-set monitor.
func confirmIndirect(nat *Native, g *ViolGroup, c *ReplayCase, entry map[string]interface{}) bool {
	ind, ok := indirectHarness[c.Fn]
	if !ok {
		return false
	}
	cc := *c
	cc.Fn = ind.Alt
	cc.ID = 0
	entry["native_demonstration"] = ind.Alt + " (" + ind.Kind + ")"
	switch ind.Kind {
	case "assert":
		// a native harness that provokes the nondeterminism by repetition
		cc.Outcome = "assert:" + g.Label
		res, err := nat.Run([]ReplayCase{cc})
		if err != nil {
			entry["native_note"] = err.Error()
			return false
		}
		r := res[0]
		entry["native_outcome"] = r.Outcome
		if strings.HasPrefix(r.Outcome, "assert:") {
			*c = cc
			c.Outcome = r.Outcome
			return true
		}
	case "race":
		// the operations run from 8 goroutines under the race detector
		found, report, err := nat.RunRace(cc)
		if err != nil {
			entry["native_note"] = err.Error()
			return false
		}
		entry["native_outcome"] = report
		if found {
			*c = cc
			c.Outcome = "race"
			c.Detail = report
			return true
		}
	case "multiproc":
		// the same case in several processes: the observations must differ
		seen := map[string]int{}
		for i := 0; i < 24; i++ {
			cc.Outcome = "ok"
			res, err := nat.runBatch([]ReplayCase{cc}, time.Minute)
			if err != nil {
				entry["native_note"] = err.Error()
				return false
			}
			seen[strings.Join(res[0].Emits, "|")]++
			if len(seen) > 1 {
				entry["native_outcome"] = fmt.Sprintf("%d different encodings in %d processes", len(seen), i+1)
				*c = cc
				c.Outcome = "differs-between-processes"
				return true
			}
		}
		entry["native_outcome"] = "24 processes produced the same encoding"
	}
	return false
}

func cmdReplay(args []string) int {
	fs := flag.NewFlagSet("replay", flag.ExitOnError)
	file := fs.String("file", "", "replay file")
	fs.Parse(args)
	b, err := os.ReadFile(*file)
	if err != nil {
		fmt.Fprintln(os.Stderr, err)
		return 2
	}
	var rep struct {
		Property  string     `json:"property"`
		Signature string     `json:"signature"`
		Case      ReplayCase `json:"case"`
	}
	if err := json.Unmarshal(b, &rep); err != nil {
		fmt.Fprintln(os.Stderr, err)
		return 2
	}
	nat, err := NewNative()
	if err != nil {
		fmt.Fprintln(os.Stderr, err)
		return 2
	}
	defer nat.Close()
	rep.Case.ID = 0
	switch rep.Case.Outcome {
	case "race":
		found, report, err := nat.RunRace(rep.Case)
		if err != nil {
			fmt.Fprintln(os.Stderr, err)
			return 2
		}
		fmt.Printf("property %s\nsignature %s\nharness %s%v (race detector)\n%s\n", rep.Property, rep.Signature, rep.Case.Fn, rep.Case.Args, report)
		if found {
			fmt.Println("REPRODUCED")
			return 1
		}
		fmt.Println("not reproduced on this tree")
		return 0
	case "differs-between-processes":
		g := &ViolGroup{Label: ""}
		entry := map[string]interface{}{}
		c := rep.Case
		indirectHarness[c.Fn] = Indirect{Alt: c.Fn, Kind: "multiproc"}
		if confirmIndirect(nat, g, &c, entry) {
			fmt.Printf("property %s\nsignature %s\n%v\nREPRODUCED\n", rep.Property, rep.Signature, entry["native_outcome"])
			return 1
		}
		fmt.Printf("%v\nnot reproduced on this tree\n", entry["native_outcome"])
		return 0
	}
	res, err := nat.Run([]ReplayCase{rep.Case})
	if err != nil {
		fmt.Fprintln(os.Stderr, err)
		return 2
	}
	r := res[0]
	fmt.Printf("property %s\nsignature %s\nharness %s%v\ninputs %s\nexpected %s\nnative   %s %v\n", rep.Property, rep.Signature, rep.Case.Fn, rep.Case.Args, modelStr(rep.Case.Model), rep.Case.Outcome, r.Outcome, r.Emits)
	if confirms(rep.Case, r) {
		fmt.Println("REPRODUCED")
		return 1
	}
	fmt.Println("not reproduced on this tree")
	return 0
}
