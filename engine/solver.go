package main

import (
	"bufio"
	"fmt"
	"io"
	"os/exec"
	"strconv"
	"strings"
	"time"
)

// Solver wraps one long-lived SMT solver process speaking SMT-LIB2 on a pipe.
// The assertion stack mirrors the explorer's decision stack (push per level).
type Solver struct {
	name    string
	cmd     *exec.Cmd
	in      io.WriteCloser
	out     *bufio.Reader
	defined map[int]bool
	vars    []*Term // variables declared in the solver since the last reset
	level   int
	buf     strings.Builder
	tlimit  int // per-query time limit, ms

	NQueries, NSat, NUnsat, NUnknown int
	Errors                           []string
	Time                             time.Duration
}

func solverArgs(kind string, tlimitMs int) []string {
	switch kind {
	case "z3":
		return []string{"z3", "-in", fmt.Sprintf("-t:%d", tlimitMs)}
	case "z3-new":
		return []string{"z3-new", "-in", fmt.Sprintf("-t:%d", tlimitMs)}
	case "cvc5":
		return []string{"cvc5", "--incremental", "--lang=smt2", "--produce-models", fmt.Sprintf("--tlimit-per=%d", tlimitMs)}
	}
	return nil
}

func NewSolver(kind string, tlimitMs int) (*Solver, error) {
	args := solverArgs(kind, tlimitMs)
	if args == nil {
		return nil, fmt.Errorf("unknown solver %q", kind)
	}
	cmd := exec.Command(args[0], args[1:]...)
	in, _ := cmd.StdinPipe()
	out, _ := cmd.StdoutPipe()
	cmd.Stderr = nil
	if err := cmd.Start(); err != nil {
		return nil, err
	}
	s := &Solver{name: kind, cmd: cmd, in: in, out: bufio.NewReaderSize(out, 1<<16), defined: map[int]bool{}, tlimit: tlimitMs}
	s.prelude()
	return s, nil
}

func (s *Solver) prelude() {
	s.buf.WriteString("(set-option :global-declarations true)\n")
	s.buf.WriteString("(set-option :produce-models true)\n")
	if s.name == "cvc5" {
		// z3 gets no set-logic: an old z3 under a restrictive logic can drop
		// what it cannot parse and still answer.
		s.buf.WriteString("(set-logic ALL)\n")
	}
}

// Reset forgets all declarations and assertions (used between jobs, together
// with a fresh TermTable).
func (s *Solver) Reset() {
	s.buf.Reset()
	s.buf.WriteString("(reset)\n")
	s.prelude()
	s.defined = map[int]bool{}
	s.vars = s.vars[:0]
	s.level = 0
}

func (s *Solver) Close() {
	s.in.Close()
	s.cmd.Process.Kill()
	s.cmd.Wait()
}

// ref returns the SMT-LIB reference for t, emitting definitions as needed.
func (s *Solver) ref(t *Term) string {
	switch t.Op {
	case OConst:
		return constStr(t)
	case OVar:
		if !s.defined[t.ID] {
			s.defined[t.ID] = true
			s.vars = append(s.vars, t)
			fmt.Fprintf(&s.buf, "(declare-const |%s| %s)\n", t.Name, sortStr(t.W))
		}
		return "|" + t.Name + "|"
	}
	name := "t" + strconv.Itoa(t.ID)
	if s.defined[t.ID] {
		return name
	}
	as := make([]string, len(t.Args))
	for i, a := range t.Args {
		as[i] = s.ref(a)
	}
	var body string
	switch t.Op {
	case OExtract:
		body = fmt.Sprintf("((_ extract %d %d) %s)", t.C>>8, t.C&0xff, as[0])
	case OZExt:
		body = fmt.Sprintf("((_ zero_extend %d) %s)", t.W-t.Args[0].W, as[0])
	case OSExt:
		body = fmt.Sprintf("((_ sign_extend %d) %s)", t.W-t.Args[0].W, as[0])
	default:
		body = "(" + opNames[t.Op] + " " + strings.Join(as, " ") + ")"
	}
	s.defined[t.ID] = true
	fmt.Fprintf(&s.buf, "(define-fun %s () %s %s)\n", name, sortStr(t.W), body)
	return name
}

func (s *Solver) flush() {
	if s.buf.Len() > 0 {
		io.WriteString(s.in, s.buf.String())
		s.buf.Reset()
	}
}

func (s *Solver) Push() {
	s.buf.WriteString("(push 1)\n")
	s.level++
}

func (s *Solver) Pop(n int) {
	if n <= 0 {
		return
	}
	fmt.Fprintf(&s.buf, "(pop %d)\n", n)
	s.level -= n
}

func (s *Solver) Assert(t *Term) {
	r := s.ref(t)
	fmt.Fprintf(&s.buf, "(assert %s)\n", r)
}

func (s *Solver) readLine() string {
	line, err := s.out.ReadString('\n')
	if err != nil {
		panic(pathEnd{"inconclusive", fmt.Sprintf("solver %s died: %v", s.name, err)})
	}
	return strings.TrimSpace(line)
}

// Check returns "sat", "unsat" or "unknown". Any (error line, timeout or other
// reply is "unknown" and recorded; it is never taken for unsat.
func (s *Solver) Check() string {
	s.buf.WriteString("(check-sat)\n")
	t0 := time.Now()
	s.flush()
	r := s.readLine()
	s.Time += time.Since(t0)
	s.NQueries++
	switch r {
	case "sat":
		s.NSat++
	case "unsat":
		s.NUnsat++
	default:
		s.NUnknown++
		s.Errors = append(s.Errors, r)
		// drain a possibly multi-line error
		depth := strings.Count(r, "(") - strings.Count(r, ")")
		for depth > 0 {
			l := s.readLine()
			depth += strings.Count(l, "(") - strings.Count(l, ")")
		}
		r = "unknown"
	}
	return r
}

// CheckWith checks satisfiability of the current stack plus extra.
func (s *Solver) CheckWith(extra ...*Term) string {
	s.Push()
	for _, e := range extra {
		s.Assert(e)
	}
	r := s.Check()
	s.Pop(1)
	return r
}

// CheckFresh checks the conjunction of terms from an empty stack position
// (used by the cross-checking solver which does not mirror the stack).
func (s *Solver) CheckFresh(terms []*Term) string {
	return s.CheckWith(terms...)
}

// ValuesOf returns the values of the given terms in the current model
// (call after a sat answer, before any pop).
func (s *Solver) ValuesOf(terms []*Term) []uint64 {
	res := make([]uint64, len(terms))
	if len(terms) == 0 {
		return res
	}
	const chunk = 2000
	for base := 0; base < len(terms); base += chunk {
		end := min(base+chunk, len(terms))
		refs := make([]string, end-base)
		for i, t := range terms[base:end] {
			refs[i] = s.ref(t)
		}
		s.buf.WriteString("(get-value (" + strings.Join(refs, " ") + "))\n")
		s.flush()
		depth := 0
		var txt strings.Builder
		for {
			line := s.readLine()
			txt.WriteString(line)
			txt.WriteString(" ")
			depth += strings.Count(line, "(") - strings.Count(line, ")")
			if depth <= 0 {
				break
			}
		}
		str := txt.String()
		if strings.Contains(str, "(error") {
			s.Errors = append(s.Errors, str)
			panic(pathEnd{"inconclusive", "solver error in get-value: " + str})
		}
		toks := tokenize(str)
		k := 0
		for i := 0; i < len(toks); i++ {
			if toks[i] == "(" && i+3 < len(toks) && toks[i+1] != "(" && toks[i+3] == ")" {
				if base+k < len(res) {
					res[base+k] = parseVal(toks[i+2])
				}
				k++
				i += 3
			}
		}
		if k != end-base {
			panic(pathEnd{"inconclusive", fmt.Sprintf("get-value: parsed %d of %d values from %q", k, end-base, str)})
		}
	}
	return res
}

// ModelOfDeclared returns the model restricted to the variables the solver
// knows; all other variables are unconstrained (taken as 0 by the evaluator).
func (s *Solver) ModelOfDeclared() map[string]uint64 {
	vs := s.ValuesOf(s.vars)
	m := make(map[string]uint64, len(vs))
	for j, v := range s.vars {
		m[v.Name] = vs[j]
	}
	return m
}

func tokenize(s string) []string {
	var toks []string
	i := 0
	for i < len(s) {
		c := s[i]
		switch {
		case c == '(' || c == ')':
			toks = append(toks, string(c))
			i++
		case c == ' ' || c == '\n' || c == '\t':
			i++
		case c == '|':
			j := strings.IndexByte(s[i+1:], '|')
			toks = append(toks, s[i:i+j+2])
			i += j + 2
		default:
			j := i
			for j < len(s) && s[j] != ' ' && s[j] != '(' && s[j] != ')' && s[j] != '\n' {
				j++
			}
			toks = append(toks, s[i:j])
			i = j
		}
	}
	return toks
}

func parseVal(t string) uint64 {
	switch {
	case t == "true":
		return 1
	case t == "false":
		return 0
	case strings.HasPrefix(t, "#x"):
		v, _ := strconv.ParseUint(t[2:], 16, 64)
		return v
	case strings.HasPrefix(t, "#b"):
		v, _ := strconv.ParseUint(t[2:], 2, 64)
		return v
	}
	panic(pathEnd{"inconclusive", "parseVal: " + t})
}
