package main

// If-conversion of tiny diamonds: a symbolic `if c { stores } [else { stores }]`
// whose sides only compute addresses, load, do arithmetic and store scalars is
// executed on both sides under predicates (stores become ite(c, new, old))
// instead of forking. This keeps flag-rendering code such as
//   if opts.Has(bit) { flags[i] = 'x' }
// on one path. Anything unexpected rolls the stores back and falls back to
// ordinary forking, so the optimisation cannot change a verdict.

import (
	"go/token"

	"golang.org/x/tools/go/ssa"
)

type undoEntry struct {
	slot *Val
	old  Val
}

// simpleSide reports whether block s consists only of whitelisted
// instructions and how it ends: "jump" (to its single successor) or "ret"
// (return without results).
func simpleSide(s *ssa.BasicBlock) (string, bool) {
	if len(s.Instrs) > 14 {
		return "", false
	}
	for i, ins := range s.Instrs {
		last := i == len(s.Instrs)-1
		switch x := ins.(type) {
		case *ssa.DebugRef, *ssa.IndexAddr, *ssa.FieldAddr, *ssa.Store, *ssa.Convert, *ssa.ChangeType:
		case *ssa.UnOp:
			if x.Op == token.ARROW {
				return "", false
			}
		case *ssa.BinOp:
			if x.Op == token.QUO || x.Op == token.REM {
				return "", false
			}
		case *ssa.Jump:
			if !last {
				return "", false
			}
			return "jump", true
		case *ssa.Return:
			if !last || len(x.Results) > 1 {
				return "", false
			}
			return "ret", true
		default:
			return "", false
		}
	}
	return "", false
}

func hasPhi(b *ssa.BasicBlock) bool {
	if len(b.Instrs) == 0 {
		return false
	}
	_, ok := b.Instrs[0].(*ssa.Phi)
	return ok
}

// ifConvert tries to execute the If at the end of block b without forking.
// Returns (join block, returned, ok). When the sides return a scalar each,
// the merged result (ite) is left in fr.ifRet. When the join block starts
// with phis of scalars, their merged values are set and fr.phiDone tells
// runBlock not to evaluate them again.
func (in *Interp) ifConvert(fr *Frame, b *ssa.BasicBlock, c *Term) (*ssa.BasicBlock, bool, bool) {
	T, F := b.Succs[0], b.Succs[1]
	kT, okT := simpleSide(T)
	kF, okF := simpleSide(F)
	type side struct {
		blk  *ssa.BasicBlock
		pred *Term
	}
	var sides []side
	var join *ssa.BasicBlock
	ret := false
	switch {
	case okT && kT == "jump" && T.Succs[0] == F && len(T.Preds) == 1:
		sides, join = []side{{T, c}}, F
	case okF && kF == "jump" && F.Succs[0] == T && len(F.Preds) == 1:
		sides, join = []side{{F, in.tt.Not(c)}}, T
	case okT && okF && kT == "jump" && kF == "jump" && T.Succs[0] == F.Succs[0] && len(T.Preds) == 1 && len(F.Preds) == 1:
		sides, join = []side{{T, c}, {F, in.tt.Not(c)}}, T.Succs[0]
	case okT && okF && kT == "ret" && kF == "ret" && len(T.Preds) == 1 && len(F.Preds) == 1:
		sides, ret = []side{{T, c}, {F, in.tt.Not(c)}}, true
	default:
		return nil, false, false
	}
	// the predecessor of join on each side (the side block, or b itself on
	// the empty side of a one-armed if)
	predOf := map[*ssa.BasicBlock]*Term{}
	if join != nil && hasPhi(join) {
		for _, sd := range sides {
			predOf[sd.blk] = sd.pred
		}
		if len(sides) == 1 {
			predOf[b] = in.tt.Not(sides[0].pred)
		}
		if len(join.Preds) != 2 {
			return nil, false, false
		}
		for _, pr := range join.Preds {
			if _, ok := predOf[pr]; !ok {
				return nil, false, false
			}
		}
	}
	retVals := 0
	if ret {
		nT := len(T.Instrs[len(T.Instrs)-1].(*ssa.Return).Results)
		nF := len(F.Instrs[len(F.Instrs)-1].(*ssa.Return).Results)
		if nT != nF {
			return nil, false, false
		}
		retVals = nT
	}
	nStores := 0
	for _, s := range sides {
		for _, ins := range s.blk.Instrs {
			if _, ok := ins.(*ssa.Store); ok {
				nStores++
			}
		}
	}
	if nStores == 0 && retVals == 0 && !(join != nil && hasPhi(join)) {
		// nothing to merge: both sides are empty — no fork needed at all
		if ret {
			return nil, true, true
		}
		return join, false, true
	}
	var undo []undoEntry
	ok := true
	savedSteps := in.steps
	func() {
		defer func() {
			if r := recover(); r != nil {
				if _, isPE := r.(pathEnd); isPE {
					ok = false
					return
				}
				if s, isS := r.(string); isS && s == "ifconv-abort" {
					ok = false
					return
				}
				panic(r)
			}
		}()
		in.ex.noFork = true
		defer func() { in.ex.noFork = false }()
		for _, s := range sides {
			for _, ins := range s.blk.Instrs {
				switch x := ins.(type) {
				case *ssa.Jump, *ssa.Return:
				case *ssa.Store:
					pv, isPtr := fr.get(in, x.Addr).(Ptr)
					if !isPtr || pv.Slot == nil {
						panic("ifconv-abort")
					}
					nv, ok1 := fr.get(in, x.Val).(Sc)
					ov, ok2 := (*pv.Slot).(Sc)
					if !ok1 || !ok2 || nv.W != ov.W {
						panic("ifconv-abort")
					}
					in.noteWrite(pv.Obj)
					undo = append(undo, undoEntry{pv.Slot, *pv.Slot})
					*pv.Slot = in.fromTerm(in.tt.Ite(s.pred, in.term(nv), in.term(ov)))
					if fr.lib {
						in.steps++
					}
				default:
					if fr.lib {
						in.steps++
					}
					in.visit(fr, ins)
				}
			}
		}
	}()
	// merged results: return values and phis
	type pv struct {
		pred *Term
		v    Val
	}
	merge := func(vs []pv) (Val, bool) {
		var t *Term
		w := uint8(0)
		for _, e := range vs {
			pred, v := e.pred, e.v
			sc, isSc := v.(Sc)
			if !isSc || sc.W == 0 || (w != 0 && sc.W != w) {
				return nil, false
			}
			w = sc.W
			if t == nil {
				t = in.term(sc)
			} else {
				t = in.tt.Ite(pred, in.term(sc), t)
			}
		}
		return in.fromTerm(t), t != nil
	}
	var retVal Val
	type phiSet struct {
		phi *ssa.Phi
		v   Val
	}
	var phis []phiSet
	if ok {
		func() {
			defer func() {
				if r := recover(); r != nil {
					ok = false
				}
			}()
			if ret && retVals == 1 {
				var vs []pv
				for _, sd := range sides {
					vs = append(vs, pv{sd.pred, fr.get(in, sd.blk.Instrs[len(sd.blk.Instrs)-1].(*ssa.Return).Results[0])})
				}
				retVal, ok = merge(vs)
			}
			if ok && join != nil && hasPhi(join) {
				for _, ins := range join.Instrs {
					phi, isPhi := ins.(*ssa.Phi)
					if !isPhi {
						break
					}
					var vs []pv
					for i, pr := range join.Preds {
						vs = append(vs, pv{predOf[pr], fr.get(in, phi.Edges[i])})
					}
					v, okm := merge(vs)
					if !okm {
						ok = false
						return
					}
					phis = append(phis, phiSet{phi, v})
				}
			}
		}()
	}
	if !ok {
		for i := len(undo) - 1; i >= 0; i-- {
			*undo[i].slot = undo[i].old
		}
		in.steps = savedSteps
		return nil, false, false
	}
	for _, ps := range phis {
		fr.set(in, ps.phi, ps.v)
	}
	fr.phiDone = len(phis) > 0
	fr.ifRet = retVal
	in.ifConverted++
	return join, ret, true
}
