package main

import (
	"fmt"
	"math/rand"
)

// rewriteSelfTest builds random expressions twice — with and without the
// bit-slice rewrites — and compares their values under random assignments.
func rewriteSelfTest(n int, seed int64) error {
	rng := rand.New(rand.NewSource(seed))
	widths := []int{8, 16, 32, 64}
	for it := 0; it < n; it++ {
		a, b := NewTermTable(), NewTermTable()
		b.NoRewrite = true
		var gen func(d, w int) (*Term, *Term)
		pick := func(w int) (*Term, *Term) {
			if rng.Intn(4) == 0 {
				c := rng.Uint64()
				if rng.Intn(2) == 0 {
					c = []uint64{0, 1, 127, 128, 255, 0x80, 0x7f, mask(w), 0xff00}[rng.Intn(9)]
				}
				return a.Const(w, c), b.Const(w, c)
			}
			name := fmt.Sprintf("v%d_%d", w, rng.Intn(2))
			return a.Var(name, w), b.Var(name, w)
		}
		gen = func(d, w int) (*Term, *Term) {
			if d == 0 {
				return pick(w)
			}
			switch rng.Intn(12) {
			case 0: // shift by const
				x, y := gen(d-1, w)
				k := uint64(rng.Intn(w + 2))
				op := []Op{OShl, OLshr}[rng.Intn(2)]
				return a.Bin(op, x, a.Const(w, k)), b.Bin(op, y, b.Const(w, k))
			case 1, 2: // bitwise
				x1, y1 := gen(d-1, w)
				x2, y2 := gen(d-1, w)
				op := []Op{OBvAnd, OBvOr, OBvXor, OAdd}[rng.Intn(4)]
				return a.Bin(op, x1, x2), b.Bin(op, y1, y2)
			case 3: // extract from wider
				ww := widths[rng.Intn(4)]
				if ww < w {
					ww = w
				}
				x, y := gen(d-1, ww)
				lo := 0
				if ww > w {
					lo = rng.Intn(ww - w + 1)
				}
				return a.Extract(lo+w-1, lo, x), b.Extract(lo+w-1, lo, y)
			case 4: // zext from narrower
				nw := widths[rng.Intn(4)]
				if nw >= w {
					return pick(w)
				}
				x, y := gen(d-1, nw)
				return a.ZExt(x, w), b.ZExt(y, w)
			case 5: // concat of two halves
				if w < 16 {
					return pick(w)
				}
				x1, y1 := gen(d-1, w/2)
				x2, y2 := gen(d-1, w/2)
				return a.Concat(x1, x2), b.Concat(y1, y2)
			case 6: // mul / div / rem by power of two
				x, y := gen(d-1, w)
				k := uint64(1) << uint(rng.Intn(w))
				op := []Op{OMul, OUDiv, OURem}[rng.Intn(3)]
				return a.Bin(op, x, a.Const(w, k)), b.Bin(op, y, b.Const(w, k))
			case 7: // ite with constant branches
				x1, y1 := gen(d-1, 8)
				x2, y2 := gen(d-1, 8)
				k1, k2 := rng.Uint64()&3, rng.Uint64()&3
				return a.Ite(a.Eq(x1, x2), a.Const(w, k1), a.Const(w, k2)), b.Ite(b.Eq(y1, y2), b.Const(w, k1), b.Const(w, k2))
			case 8: // equality as 0/1
				x1, y1 := gen(d-1, w)
				x2, y2 := gen(d-1, w)
				return a.Ite(a.Eq(x1, x2), a.Const(w, 1), a.Const(w, 0)), b.Ite(b.Eq(y1, y2), b.Const(w, 1), b.Const(w, 0))
			case 9: // bytes re-assembled big-endian
				if w != 16 && w != 32 {
					return pick(w)
				}
				x, y := gen(d-1, w)
				var ra, rb *Term = a.Const(w, 0), b.Const(w, 0)
				for i := 0; i < w/8; i++ {
					ba := a.ZExt(a.Extract(8*i+7, 8*i, x), w)
					bb := b.ZExt(b.Extract(8*i+7, 8*i, y), w)
					ra = a.Bin(OBvOr, ra, a.Bin(OShl, ba, a.Const(w, uint64(8*i))))
					rb = b.Bin(OBvOr, rb, b.Bin(OShl, bb, b.Const(w, uint64(8*i))))
				}
				return ra, rb
			case 10: // sub / neg
				x1, y1 := gen(d-1, w)
				x2, y2 := gen(d-1, w)
				return a.Bin(OSub, x1, x2), b.Bin(OSub, y1, y2)
			default:
				return pick(w)
			}
		}
		w := widths[rng.Intn(4)]
		ta, tb := gen(1+rng.Intn(4), w)
		for k := 0; k < 8; k++ {
			m := map[string]uint64{}
			for _, ww := range widths {
				for j := 0; j < 2; j++ {
					v := rng.Uint64()
					if rng.Intn(3) == 0 {
						v = []uint64{0, 1, 0x7f, 0x80, 0xff, 0x100}[rng.Intn(6)]
					}
					m[fmt.Sprintf("v%d_%d", ww, j)] = v & mask(ww)
				}
			}
			va := Eval(ta, m, map[int]uint64{})
			vb := Eval(tb, m, map[int]uint64{})
			if va != vb {
				return fmt.Errorf("rewrite self-test: iteration %d: rewritten %s = %#x, literal %s = %#x under %v", it, termStr(ta, 8), va, termStr(tb, 8), vb, m)
			}
		}
	}
	return nil
}
