package main

import (
	"fmt"
	"go/types"
	"strconv"
	"strings"

	"golang.org/x/tools/go/ssa"
)

var intrinsics map[string]func(in *Interp, args []Val) Val

const mqPath = "github.com/gregoryv/mq."

func concStr(v Val) string {
	s, ok := v.(Str).Conc()
	if !ok {
		panic(pathEnd{"harness", "symbolic string where a concrete one is needed"})
	}
	return s
}

func concIntArg(v Val) int {
	s := v.(Sc)
	if s.T != nil {
		panic(pathEnd{"harness", "symbolic integer where a concrete one is needed"})
	}
	return int(sext(s.C, int(s.W)))
}

func (in *Interp) newVar(name string, w int) Sc {
	return in.fromTerm(in.tt.Var(name, w))
}

func (in *Interp) bytesOf(v Val) []Sc {
	switch x := v.(type) {
	case Slice:
		b := make([]Sc, x.Len)
		for i := 0; i < x.Len; i++ {
			b[i] = x.Obj.Cells[x.Off+i].(Sc)
		}
		return b
	case Str:
		return in.flat(x).B
	}
	panic(fmt.Sprintf("bytesOf %T", v))
}

func (in *Interp) mkBytes(b []Sc, site string) Slice {
	o := in.newObj(len(b), site)
	for i, c := range b {
		o.Cells[i] = c
	}
	return Slice{o, 0, len(b), len(b)}
}

func (in *Interp) bytesEqTerm(a, b []Sc) *Term {
	if len(a) != len(b) {
		return in.tt.Bool(false)
	}
	r := in.tt.Bool(true)
	for i := range a {
		r = in.tt.And(r, in.tt.Eq(in.term(a[i]), in.term(b[i])))
	}
	return r
}

func (in *Interp) recordViolation(kind, label string, m map[string]uint64) {
	where, _ := in.libWhere()
	where = shortFn(where)
	if strings.HasPrefix(label, "monitor:") && len(in.writeSites) > 0 {
		where += " writes: " + strings.Join(in.writeSites, ", ")
	}
	in.viols = append(in.viols, Violation{Label: label, Model: m, Kind: kind, Where: where, Order: in.orderDev})
}

func (in *Interp) doAssert(c *Term, label string) {
	if c.IsTrue() {
		return
	}
	if c.IsFalse() {
		in.recordViolation("assert", label, in.ex.Model())
		panic(pathEnd{"assertfalse", label})
	}
	if in.ex.ReplayAssertFail(c) {
		in.ex.AssumeAfterFailure(c)
		return
	}
	if !in.ex.atFrontier() || in.ex.skipAsserts() {
		return
	}
	ok, m := in.ex.Holds(c)
	if ok {
		return
	}
	in.recordViolation("assert", label, m)
	in.ex.AssumeAfterFailure(c)
}

func (in *Interp) builderOf(recv Val) *[]Piece {
	p := recv.(Ptr)
	if p.Slot == nil {
		in.libPanic("nil-deref", "nil builder")
	}
	b, ok := in.builders[p.Slot]
	if !ok {
		b = new([]Piece)
		in.builders[p.Slot] = b
	}
	return b
}

func (in *Interp) builderAppend(recv Val, s Str) {
	b := in.builderOf(recv)
	in.noteWrite(recv.(Ptr).Obj)
	*b = append(*b, s.pieces()...)
}

func strLenOrZero(s Str) Sc {
	if s.R != nil {
		return concInt(64, 0)
	}
	return concInt(64, uint64(len(s.B)))
}

func (in *Interp) isRopeWriter(w Iface) bool {
	if w.T == nil {
		return false
	}
	s := w.T.String()
	return s == "*strings.Builder" || s == "*"+mqPath+"zzRopeW"
}

// writeTo sends s to an io.Writer value.
func (in *Interp) writeTo(w Val, s Str) Val {
	ifc := w.(Iface)
	if ifc.T == nil {
		in.libPanic("nil-deref", "Fprintf to nil writer")
	}
	if in.isRopeWriter(ifc) {
		in.builderAppend(ifc.V, s)
		return Tuple{strLenOrZero(s), Iface{}}
	}
	fs := in.flat(s)
	buf := in.mkBytes(fs.B, "fmt buffer")
	m := in.lookupMethod(ifc.T, nil, "Write")
	if m == nil {
		in.inconclusive("no Write method on " + ifc.T.String())
	}
	return in.callFunction(m, []Val{ifc.V, buf}, nil)
}

// errChain walks the tree of errors below err the way errors.Is / errors.As
// do (the error itself, then what Unwrap() error or Unwrap() []error give,
// depth first) and stops when visit reports true.
func (in *Interp) errChain(cur Iface, depth int, visit func(Iface) bool) bool {
	for ; depth < 50; depth++ {
		if cur.T == nil {
			return false
		}
		if visit(cur) {
			return true
		}
		if ev, ok := cur.V.(*ErrV); ok {
			if ev.Wrapped == nil {
				return false
			}
			cur = ev.Wrapped.(Iface)
			continue
		}
		m := in.methodOf(cur.T, "Unwrap")
		if m == nil || m.Signature.Results().Len() != 1 || m.Signature.Params().Len() != 0 {
			return false
		}
		r := in.callFunction(m, []Val{cur.V}, nil)
		switch rv := r.(type) {
		case Iface:
			cur = rv
		case Slice:
			for i := 0; i < rv.Len; i++ {
				if e, ok := rv.Obj.Cells[rv.Off+i].(Iface); ok && in.errChain(e, depth+1, visit) {
					return true
				}
			}
			return false
		default:
			return false
		}
	}
	return false
}

func (in *Interp) methodOf(t types.Type, name string) *ssa.Function {
	ms := in.w.prog.MethodSets.MethodSet(t)
	for i := 0; i < ms.Len(); i++ {
		if sel := ms.At(i); sel.Obj().Name() == name {
			return in.w.prog.MethodValue(sel)
		}
	}
	return nil
}

func (in *Interp) errorsIs(err, target Val) bool {
	cur, _ := err.(Iface)
	tgt, _ := target.(Iface)
	if cur.T == nil {
		return tgt.T == nil
	}
	return in.errChain(cur, 0, func(e Iface) bool {
		eq := in.equal(e, tgt)
		if eq.IsTrue() {
			return true
		}
		if !eq.IsFalse() {
			in.inconclusive("errors.Is on symbolic error values")
		}
		if _, isEV := e.V.(*ErrV); isEV {
			return false
		}
		// an Is(error) bool method decides as well
		if m := in.methodOf(e.T, "Is"); m != nil && m.Signature.Params().Len() == 1 && m.Signature.Results().Len() == 1 {
			if r, ok := in.callFunction(m, []Val{e.V, tgt}, nil).(Sc); ok {
				if r.T != nil {
					return in.ex.Branch(r.T)
				}
				return r.C == 1
			}
		}
		return false
	})
}

// errorsAs: errors.As(err, target) with target a non-nil pointer to a type
// that implements error or to an interface type.
func (in *Interp) errorsAs(err, target Val) bool {
	cur, _ := err.(Iface)
	tgt, _ := target.(Iface)
	if tgt.T == nil {
		in.libPanic("explicit-panic", "errors: target cannot be nil")
	}
	pt, ok := tgt.T.Underlying().(*types.Pointer)
	tp, isPtr := tgt.V.(Ptr)
	if !ok || !isPtr || tp.Slot == nil {
		in.libPanic("explicit-panic", "errors: target must be a non-nil pointer")
	}
	elem := pt.Elem()
	it, elemIsIface := elem.Underlying().(*types.Interface)
	if cur.T == nil {
		return false
	}
	return in.errChain(cur, 0, func(e Iface) bool {
		_, isEV := e.V.(*ErrV)
		if elemIsIface {
			if isEV && !(it.NumMethods() == 0 || (it.NumMethods() == 1 && it.Method(0).Name() == "Error")) {
				return false
			}
			if isEV || types.Implements(e.T, it) {
				store(tp.Slot, e)
				return true
			}
		} else if !isEV && types.Identical(e.T, elem) {
			store(tp.Slot, copyVal(e.V))
			return true
		}
		if isEV {
			return false
		}
		if m := in.methodOf(e.T, "As"); m != nil && m.Signature.Params().Len() == 1 && m.Signature.Results().Len() == 1 {
			if r, ok := in.callFunction(m, []Val{e.V, tgt}, nil).(Sc); ok {
				if r.T != nil {
					return in.ex.Branch(r.T)
				}
				return r.C == 1
			}
		}
		return false
	})
}

func init() {
	zz := func(name string, f func(in *Interp, a []Val) Val) {
		intrinsics[mqPath+name] = f
	}
	intrinsics = map[string]func(in *Interp, args []Val) Val{}

	// ---- symbolic inputs
	zz("zzU8", func(in *Interp, a []Val) Val { return in.newVar(concStr(a[0]), 8) })
	zz("zzU16", func(in *Interp, a []Val) Val { return in.newVar(concStr(a[0]), 16) })
	zz("zzU32", func(in *Interp, a []Val) Val { return in.newVar(concStr(a[0]), 32) })
	zz("zzU64", func(in *Interp, a []Val) Val { return in.newVar(concStr(a[0]), 64) })
	zz("zzBool", func(in *Interp, a []Val) Val { return in.newVar(concStr(a[0]), 0) })
	zz("zzInt", func(in *Interp, a []Val) Val {
		lo, hi := concIntArg(a[1]), concIntArg(a[2])
		if lo == hi {
			return concInt(64, uint64(lo))
		}
		v := in.tt.Var(concStr(a[0]), 64)
		in.ex.Assume(in.tt.And(in.tt.Cmp(OSle, in.tt.Const(64, uint64(lo)), v), in.tt.Cmp(OSle, v, in.tt.Const(64, uint64(hi)))))
		return in.fromTerm(v)
	})
	zz("zzBytes", func(in *Interp, a []Val) Val {
		name := concStr(a[0])
		n := concIntArg(a[1])
		o := in.newObj(n, "zzBytes")
		for i := 0; i < n; i++ {
			o.Cells[i] = in.newVar(name+"["+strconv.Itoa(i)+"]", 8)
		}
		return Slice{o, 0, n, n}
	})

	// ---- assumptions, assertions, observations
	zz("zzAssume", func(in *Interp, a []Val) Val {
		in.ex.Assume(in.term(a[0].(Sc)))
		return nil
	})
	zz("zzAssert", func(in *Interp, a []Val) Val {
		in.doAssert(in.term(a[0].(Sc)), concStr(a[1]))
		return nil
	})
	zz("zzReach", func(in *Interp, a []Val) Val {
		in.reach[concStr(a[0])] = true
		return nil
	})
	zz("zzEmitU", func(in *Interp, a []Val) Val {
		in.emits = append(in.emits, Emit{concStr(a[0]), a[1]})
		return nil
	})
	zz("zzEmitB", func(in *Interp, a []Val) Val {
		in.emits = append(in.emits, Emit{concStr(a[0]), Str{B: in.bytesOf(a[1])}})
		return nil
	})
	zz("zzEmitS", func(in *Interp, a []Val) Val {
		in.emits = append(in.emits, Emit{concStr(a[0]), a[1]})
		return nil
	})
	zz("zzNative", func(in *Interp, a []Val) Val { return concBool(false) })

	// ---- fork-free helpers
	zz("zzB2U", func(in *Interp, a []Val) Val {
		return in.fromTerm(in.tt.Ite(in.term(a[0].(Sc)), in.tt.Const(64, 1), in.tt.Const(64, 0)))
	})
	zz("zzIte", func(in *Interp, a []Val) Val {
		return in.fromTerm(in.tt.Ite(in.term(a[0].(Sc)), in.term(a[1].(Sc)), in.term(a[2].(Sc))))
	})
	zz("zzAnd", func(in *Interp, a []Val) Val {
		return in.fromTerm(in.tt.And(in.term(a[0].(Sc)), in.term(a[1].(Sc))))
	})
	zz("zzOr", func(in *Interp, a []Val) Val {
		return in.fromTerm(in.tt.Or(in.term(a[0].(Sc)), in.term(a[1].(Sc))))
	})
	zz("zzBytesEq", func(in *Interp, a []Val) Val {
		return in.fromTerm(in.bytesEqTerm(in.bytesOf(a[0]), in.bytesOf(a[1])))
	})
	zz("zzStrEq", func(in *Interp, a []Val) Val {
		x, y := a[0].(Str), a[1].(Str)
		if x.R == nil && y.R == nil {
			return in.fromTerm(in.bytesEqTerm(x.B, y.B))
		}
		if t, ok := in.ropeEqual(x, y); ok {
			return in.fromTerm(t)
		}
		return concBool(false)
	})
	zz("zzConc", func(in *Interp, a []Val) Val {
		s := a[0].(Sc)
		if s.T == nil {
			return s
		}
		return concInt(int(s.W), in.ex.Concretize(s.T))
	})

	// ---- rope queries
	zz("zzStrHasLit", func(in *Interp, a []Val) Val {
		return concBool(strHasLit(a[0].(Str), concStr(a[1])))
	})
	zz("zzStrIntBefore", func(in *Interp, a []Val) Val {
		v, ok := in.strIntBefore(a[0].(Str), concStr(a[1]))
		if !ok {
			return Tuple{concInt(64, 0), concBool(false)}
		}
		return Tuple{v, concBool(true)}
	})

	// ---- monitors
	zz("zzMarkShared", func(in *Interp, a []Val) Val {
		in.sharedMark = in.objSeq
		in.sharedWrites = 0
		if in.locks != nil {
			in.locks.cells = map[lockKey]*lockInfo{}
			in.locks.wkeys = nil
		}
		return nil
	})
	zz("zzSharedWrites", func(in *Interp, a []Val) Val { return concInt(64, uint64(in.sharedWrites)) })
	zz("zzGlobalWrites", func(in *Interp, a []Val) Val { return concInt(64, uint64(in.globalWrites)) })
	zz("zzAllocBytes", func(in *Interp, a []Val) Val { return concInt(64, uint64(in.allocBytes)) })
	zz("zzSteps", func(in *Interp, a []Val) Val { return concInt(64, uint64(in.steps)) })
	zz("zzSetBudget", func(in *Interp, a []Val) Val {
		in.stepBudget = in.steps + concIntArg(a[0])
		in.allocBudget = in.allocBytes + concIntArg(a[1])
		return nil
	})
	zz("zzBudgetCheck", func(in *Interp, a []Val) Val { return nil })
	zz("zzOrderMode", func(in *Interp, a []Val) Val {
		in.orderMode = concStr(a[0])
		return nil
	})

	// ---- rope writer of the harness
	intrinsics["(*"+mqPath+"zzRopeW).Write"] = func(in *Interp, a []Val) Val {
		b := in.bytesOf(a[1])
		in.builderAppend(a[0], Str{B: b})
		return Tuple{concInt(64, uint64(len(b))), Iface{}}
	}
	intrinsics["(*"+mqPath+"zzRopeW).String"] = func(in *Interp, a []Val) Val {
		return mkStr(*in.builderOf(a[0]))
	}

	// ---- fmt
	intrinsics["fmt.Sprintf"] = func(in *Interp, a []Val) Val {
		s, _ := in.sprintf(concStr(a[0]), sliceVals(a[1]))
		return s
	}
	intrinsics["fmt.Errorf"] = func(in *Interp, a []Val) Val {
		s, w := in.sprintf(concStr(a[0]), sliceVals(a[1]))
		ev := &ErrV{Msg: s}
		if wi, ok := w.(Iface); ok && wi.T != nil {
			ev.Wrapped = wi
		}
		return Iface{T: in.w.errT, V: ev}
	}
	intrinsics["fmt.Fprintf"] = func(in *Interp, a []Val) Val {
		s, _ := in.sprintf(concStr(a[1]), sliceVals(a[2]))
		return in.writeTo(a[0], s)
	}
	intrinsics["fmt.Fprintln"] = func(in *Interp, a []Val) Val {
		return in.writeTo(a[0], in.sprintln(sliceVals(a[1])))
	}
	intrinsics["fmt.Fprint"] = func(in *Interp, a []Val) Val {
		vs := sliceVals(a[1])
		var ps []Piece
		for _, v := range vs {
			ps = append(ps, in.fmtArg("%v", v)...)
		}
		return in.writeTo(a[0], mkStr(ps))
	}
	intrinsics["fmt.Sprint"] = func(in *Interp, a []Val) Val {
		vs := sliceVals(a[0])
		var ps []Piece
		for _, v := range vs {
			ps = append(ps, in.fmtArg("%v", v)...)
		}
		return mkStr(ps)
	}
	intrinsics["fmt.Sprintln"] = func(in *Interp, a []Val) Val { return in.sprintln(sliceVals(a[0])) }

	// ---- errors
	intrinsics["errors.New"] = func(in *Interp, a []Val) Val {
		return Iface{T: in.w.errT, V: &ErrV{Msg: a[0].(Str)}}
	}
	intrinsics["errors.Is"] = func(in *Interp, a []Val) Val { return concBool(in.errorsIs(a[0], a[1])) }
	intrinsics["errors.As"] = func(in *Interp, a []Val) Val { return concBool(in.errorsAs(a[0], a[1])) }
	intrinsics["errors.Unwrap"] = func(in *Interp, a []Val) Val {
		cur, _ := a[0].(Iface)
		if ev, ok := cur.V.(*ErrV); ok {
			if ev.Wrapped != nil {
				return ev.Wrapped
			}
			return Iface{}
		}
		if cur.T != nil {
			if m := in.methodOf(cur.T, "Unwrap"); m != nil && m.Signature.Params().Len() == 0 && m.Signature.Results().Len() == 1 {
				if r, ok := in.callFunction(m, []Val{cur.V}, nil).(Iface); ok {
					return r
				}
			}
		}
		return Iface{}
	}

	// ---- strings.Builder
	intrinsics["(*strings.Builder).WriteString"] = func(in *Interp, a []Val) Val {
		s := a[1].(Str)
		in.builderAppend(a[0], s)
		return Tuple{strLenOrZero(s), Iface{}}
	}
	intrinsics["(*strings.Builder).Write"] = func(in *Interp, a []Val) Val {
		b := in.bytesOf(a[1])
		in.builderAppend(a[0], Str{B: b})
		return Tuple{concInt(64, uint64(len(b))), Iface{}}
	}
	intrinsics["(*strings.Builder).WriteByte"] = func(in *Interp, a []Val) Val {
		in.builderAppend(a[0], Str{B: []Sc{a[1].(Sc)}})
		return Iface{}
	}
	intrinsics["(*strings.Builder).WriteRune"] = func(in *Interp, a []Val) Val {
		r := a[1].(Sc)
		if r.T != nil {
			in.inconclusive("WriteRune of symbolic rune")
		}
		s := strOf(string(rune(r.C)))
		in.builderAppend(a[0], s)
		return Tuple{concInt(64, uint64(len(s.B))), Iface{}}
	}
	intrinsics["(*strings.Builder).String"] = func(in *Interp, a []Val) Val {
		return mkStr(*in.builderOf(a[0]))
	}
	intrinsics["(*strings.Builder).Len"] = func(in *Interp, a []Val) Val {
		s := in.flat(mkStr(*in.builderOf(a[0])))
		return concInt(64, uint64(len(s.B)))
	}
	intrinsics["(*strings.Builder).Reset"] = func(in *Interp, a []Val) Val {
		*in.builderOf(a[0]) = nil
		return nil
	}
	intrinsics["(*strings.Builder).Grow"] = func(in *Interp, a []Val) Val { return nil }

	// ---- bytes, strconv, time
	intrinsics["bytes.Repeat"] = func(in *Interp, a []Val) Val {
		b := in.bytesOf(a[0])
		n := concIntArg(a[1])
		if n < 0 {
			in.libPanic("explicit-panic", "bytes: negative Repeat count")
		}
		out := make([]Sc, 0, len(b)*n)
		for i := 0; i < n; i++ {
			out = append(out, b...)
		}
		in.noteAlloc(len(out))
		return in.mkBytes(out, "bytes.Repeat")
	}
	intrinsics["bytes.Equal"] = func(in *Interp, a []Val) Val {
		return in.fromTerm(in.bytesEqTerm(in.bytesOf(a[0]), in.bytesOf(a[1])))
	}
	intrinsics["strconv.FormatInt"] = func(in *Interp, a []Val) Val {
		base := concIntArg(a[1])
		v := a[0].(Sc)
		if v.T == nil {
			return strOf(strconv.FormatInt(sext(v.C, 64), base))
		}
		if base != 10 {
			in.inconclusive("FormatInt of symbolic value in base != 10")
		}
		return mkStr([]Piece{{Op: &Opaque{Verb: "%d", Kind: "int64", Args: []Sc{v}}}})
	}
	intrinsics["strconv.Itoa"] = func(in *Interp, a []Val) Val {
		v := a[0].(Sc)
		return mkStr([]Piece{{Op: &Opaque{Verb: "%d", Kind: "int", Args: []Sc{v}}}})
	}
	intrinsics["(time.Duration).String"] = func(in *Interp, a []Val) Val {
		return mkStr([]Piece{{Op: &Opaque{Verb: "%v", Kind: "duration", Args: []Sc{a[0].(Sc)}}}})
	}
	intrinsics["strings.Contains"] = func(in *Interp, a []Val) Val {
		return concBool(strings.Contains(concStr(a[0]), concStr(a[1])))
	}
	intrinsics["strings.HasPrefix"] = func(in *Interp, a []Val) Val {
		return concBool(strings.HasPrefix(concStr(a[0]), concStr(a[1])))
	}
	intrinsics["strings.Repeat"] = func(in *Interp, a []Val) Val {
		return strOf(strings.Repeat(concStr(a[0]), concIntArg(a[1])))
	}
	// ---- sort (reflect-based in the standard library): stable insertion
	// sort, which is what sort.SliceStable and sort.Slice do for short slices
	sortSlice := func(in *Interp, a []Val) Val {
		x, _ := a[0].(Iface)
		sl, ok := x.V.(Slice)
		if !ok {
			in.inconclusive("sort.Slice of a non-slice")
		}
		less := a[1]
		call := func(i, j int) bool {
			r := in.call(less, []Val{concInt(64, uint64(i)), concInt(64, uint64(j))}).(Sc)
			if r.T == nil {
				return r.C == 1
			}
			return in.ex.Branch(r.T)
		}
		for i := 1; i < sl.Len; i++ {
			for j := i; j > 0 && call(j, j-1); j-- {
				in.noteWrite(sl.Obj)
				c := sl.Obj.Cells
				c[sl.Off+j], c[sl.Off+j-1] = c[sl.Off+j-1], c[sl.Off+j]
			}
		}
		return nil
	}
	intrinsics["sort.Slice"] = sortSlice
	intrinsics["sort.SliceStable"] = sortSlice

	// ---- sync.Pool: Get returns a pooled object or New(); an object that was
	// Put may be owned by another goroutine from then on
	intrinsics["(*sync.Pool).Put"] = func(in *Interp, a []Val) Val {
		p := a[0].(Ptr)
		if ifc, ok := a[1].(Iface); ok && ifc.T != nil {
			in.pools[p.Slot] = append(in.pools[p.Slot], a[1])
			in.markPool(ifc.V, true, 0)
		}
		return nil
	}
	intrinsics["(*sync.Pool).Get"] = func(in *Interp, a []Val) Val {
		p := a[0].(Ptr)
		items := in.pools[p.Slot]
		// whether Get hands back a pooled object or calls New is up to the
		// runtime: a free decision for the first few Gets of a path that
		// find the pool non-empty, after that the pooled object (what the
		// runtime does when no GC intervenes; its stale contents are the
		// interesting case) - otherwise n Gets cost 2^n paths
		recycle := len(items) > 0
		if recycle && in.poolChoices < in.poolChoiceMax() {
			in.poolChoices++
			recycle = in.ex.ChooseFree("pool", 2) == 0
		}
		if recycle {
			it := items[len(items)-1]
			in.pools[p.Slot] = items[:len(items)-1]
			in.markPool(it.(Iface).V, false, 0)
			return it
		}
		st := (*p.Slot).(Struct)
		tp := p.poolNewField(in)
		if tp < 0 || isNilVal(st[tp]) {
			return Iface{}
		}
		r := in.call(st[tp], nil)
		if ifc, ok := r.(Iface); ok && ifc.T != nil {
			in.markPool(ifc.V, false, 0)
		}
		return r
	}
	// ---- a second process: package-level variables are initialised again,
	// with the given map iteration order
	zz("zzNewProcess", func(in *Interp, a []Val) Val {
		mode := concStr(a[0])
		in.locks = nil
		for g := range in.globals {
			if g.Pkg == in.w.mq {
				delete(in.globals, g)
			}
		}
		saved, savedBudget := in.orderMode, in.stepBudget
		steps, alloc := in.steps, in.allocBytes
		in.orderMode = mode
		in.stepBudget = 1 << 30
		depth := len(in.stack)
		in.callFunction(in.w.mq.Func("init"), nil, nil)
		in.stack = in.stack[:depth]
		in.orderMode, in.stepBudget = saved, savedBudget
		// the work of package initialisation is not charged to the operations
		in.steps, in.allocBytes = steps, alloc
		return nil
	})
	_ = types.Typ
}

// markPool marks the objects reachable from v as released to / obtained from
// a pool.
func (in *Interp) markPool(v Val, released bool, depth int) {
	if depth > 4 {
		return
	}
	set := func(o *Obj) {
		if o != nil {
			o.Released = released
			o.PoolOwned = !released
		}
	}
	switch x := v.(type) {
	case Ptr:
		if x.Slot != nil {
			set(x.Obj)
			in.markPool(*x.Slot, released, depth+1)
		}
	case Slice:
		set(x.Obj)
	case Struct:
		for _, f := range x {
			in.markPool(f, released, depth+1)
		}
	case Iface:
		in.markPool(x.V, released, depth+1)
	}
}

// poolNewField finds the index of the New field of sync.Pool.
func (p Ptr) poolNewField(in *Interp) int {
	pkg := in.w.prog.ImportedPackage("sync")
	if pkg == nil {
		return -1
	}
	st, ok := pkg.Type("Pool").Type().Underlying().(*types.Struct)
	if !ok {
		return -1
	}
	for i := 0; i < st.NumFields(); i++ {
		if st.Field(i).Name() == "New" {
			return i
		}
	}
	return -1
}
