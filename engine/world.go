package main

import (
	"fmt"
	"go/types"
	"os"
	"path/filepath"
	"sort"
	"strings"

	"golang.org/x/tools/go/packages"
	"golang.org/x/tools/go/ssa"
	"golang.org/x/tools/go/ssa/ssautil"
)

var repoDir = envOr("VERIF_REPO", "/repo")

func envOr(k, d string) string {
	if v := os.Getenv(k); v != "" {
		return v
	}
	return d
}

func verifHome() string {
	if v := os.Getenv("VERIF_HOME"); v != "" {
		return v
	}
	exe, err := os.Executable()
	if err == nil {
		d := filepath.Dir(filepath.Dir(exe))
		if _, err := os.Stat(filepath.Join(d, "harness")); err == nil {
			return d
		}
	}
	return "/verif"
}

// harnessOverlay maps virtual files in the repository directory to the
// harness sources. Test files are only used by the native runner.
func harnessOverlay(withTests bool) (map[string]string, error) {
	files, err := filepath.Glob(filepath.Join(verifHome(), "harness", "*.go"))
	if err != nil {
		return nil, err
	}
	sort.Strings(files)
	ov := map[string]string{}
	for _, f := range files {
		base := filepath.Base(f)
		if strings.HasSuffix(base, "_test.go") && !withTests {
			continue
		}
		ov[filepath.Join(repoDir, "zz_verif_"+base)] = f
	}
	return ov, nil
}

func goEnv() []string {
	env := os.Environ()
	env = append(env, "GOFLAGS=-mod=mod", "GOPROXY=off", "GOSUMDB=off", "GOTOOLCHAIN=local")
	return env
}

// loadWorld type-checks the repository's current working tree together with
// the harness (overlay, nothing is written into the repository) and builds
// SSA for it and all its dependencies.
func loadWorld() (*World, error) {
	ovFiles, err := harnessOverlay(false)
	if err != nil {
		return nil, err
	}
	overlay := map[string][]byte{}
	for virt, real := range ovFiles {
		src, err := os.ReadFile(real)
		if err != nil {
			return nil, err
		}
		overlay[virt] = src
	}
	cfg := &packages.Config{
		Mode:       packages.LoadAllSyntax,
		Dir:        repoDir,
		Overlay:    overlay,
		BuildFlags: []string{"-tags=verif"},
		Env:        goEnv(),
	}
	pkgs, err := packages.Load(cfg, ".")
	if err != nil {
		return nil, err
	}
	nerr := 0
	packages.Visit(pkgs, nil, func(p *packages.Package) {
		for _, e := range p.Errors {
			fmt.Fprintln(os.Stderr, "load:", e)
			nerr++
		}
	})
	if nerr > 0 {
		return nil, fmt.Errorf("%d errors loading %s with the harness", nerr, repoDir)
	}
	prog, spkgs := ssautil.AllPackages(pkgs, ssa.InstantiateGenerics)
	prog.Build()
	w := &World{prog: prog, mq: spkgs[0], sizes: types.SizesFor("gc", "amd64"), harnessFn: map[*ssa.Function]bool{}}
	fmtPkg := prog.ImportedPackage("fmt")
	if fmtPkg == nil {
		return nil, fmt.Errorf("fmt not loaded")
	}
	w.errT = types.NewPointer(fmtPkg.Type("wrapError").Type())
	// pre-compute the harness classification (read-only afterwards)
	// dependency initialisers: a few pure packages are initialised on every
	// path (their tables matter, e.g. unicode/utf8); for all others the
	// variables their init would set are recorded so that a read of one of
	// them is reported instead of silently seeing a zero value
	pure := map[string]bool{"unicode/utf8": true, "unicode/utf16": true, "math/bits": true, "unicode": true, "sort": true, "slices": true, "cmp": true, "bufio": true, "bytes": true, "strings": true, "strconv": true, "encoding/binary": true, "math": true}
	w.initStores = map[*ssa.Global]bool{}
	w.pureInitOf = map[*ssa.Package]*ssa.Function{}
	for _, p := range prog.AllPackages() {
		if p == w.mq {
			continue
		}
		ini := p.Func("init")
		if ini == nil {
			continue
		}
		if pure[p.Pkg.Path()] {
			w.pureInitOf[p] = ini
			continue
		}
		for _, b := range ini.Blocks {
			for _, ins := range b.Instrs {
				if st, ok := ins.(*ssa.Store); ok {
					if g, ok := st.Addr.(*ssa.Global); ok && !strings.HasPrefix(g.Name(), "init$") {
						w.initStores[g] = true
					}
				}
			}
		}
	}
	w.fnName = map[*ssa.Function]string{}
	w.fnShort = map[*ssa.Function]string{}
	w.valIdx = map[ssa.Value]int32{}
	w.fnSlots = map[*ssa.Function]int32{}
	for fn := range ssautil.AllFunctions(prog) {
		w.harnessFn[fn] = w.isHarnessSlow(fn)
		w.fnName[fn] = fn.String()
		w.fnShort[fn] = shortFn(w.fnName[fn])
		n := int32(0)
		for _, p := range fn.Params {
			w.valIdx[p] = n
			n++
		}
		for _, fv := range fn.FreeVars {
			w.valIdx[fv] = n
			n++
		}
		for _, b := range fn.Blocks {
			for _, ins := range b.Instrs {
				if v, ok := ins.(ssa.Value); ok {
					w.valIdx[v] = n
					n++
				}
			}
		}
		w.fnSlots[fn] = n
	}
	w.scanSync()
	return w, nil
}

func (w *World) isHarnessSlow(fn *ssa.Function) bool {
	root := fn
	for root.Parent() != nil {
		root = root.Parent()
	}
	if root.Pkg == w.mq {
		pos := w.prog.Fset.Position(root.Pos())
		if pos.Filename != "" {
			return strings.Contains(filepath.Base(pos.Filename), "zz_verif")
		}
	}
	if root.Pkg == nil || root.Pkg == w.mq {
		// synthetic wrappers, bound methods, thunks: by receiver/function name
		s := root.String()
		return strings.Contains(s, "mq.zz") || strings.Contains(s, "mq.ZZ")
	}
	return false
}

// libFunctions lists the library functions (non-harness functions of the
// package) with their instruction counts.
func (w *World) libFunctions() map[string]int {
	out := map[string]int{}
	for fn := range ssautil.AllFunctions(w.prog) {
		root := fn
		for root.Parent() != nil {
			root = root.Parent()
		}
		if root.Pkg != w.mq || w.harnessFn[fn] {
			continue
		}
		n := 0
		for _, b := range fn.Blocks {
			n += len(b.Instrs)
		}
		out[shortFn(fn.String())] = n
	}
	return out
}
