package main

// Term layer: hash-consed bit-vector / boolean terms with constant folding,
// a concrete evaluator and an SMT-LIB2 printer (define-fun per shared term).

import (
	"fmt"
)

type Op uint8

const (
	OConst Op = iota
	OVar
	ONot
	OAnd
	OOr
	OEq
	OUlt
	OUle
	OSlt
	OSle
	OIte
	OBvNot
	OBvNeg
	OAdd
	OSub
	OMul
	OUDiv
	OURem
	OSDiv
	OSRem
	OBvAnd
	OBvOr
	OBvXor
	OShl
	OLshr
	OAshr
	OExtract // c = hi<<8|lo
	OConcat
	OZExt
	OSExt
)

var opNames = map[Op]string{ONot: "not", OAnd: "and", OOr: "or", OEq: "=", OUlt: "bvult", OUle: "bvule",
	OSlt: "bvslt", OSle: "bvsle", OIte: "ite", OBvNot: "bvnot", OBvNeg: "bvneg", OAdd: "bvadd", OSub: "bvsub",
	OMul: "bvmul", OUDiv: "bvudiv", OURem: "bvurem", OSDiv: "bvsdiv", OSRem: "bvsrem", OBvAnd: "bvand",
	OBvOr: "bvor", OBvXor: "bvxor", OShl: "bvshl", OLshr: "bvlshr", OAshr: "bvashr", OConcat: "concat"}

// Term: W==0 means Bool.
type Term struct {
	ID   int
	Op   Op
	W    int
	Args []*Term
	C    uint64
	Name string
}

type termKey struct {
	op         Op
	w          int
	c          uint64
	name       string
	a0, a1, a2 int
}

type TermTable struct {
	NoRewrite bool // build terms literally (self-test of the rewrites)
	tab       map[termKey]*Term
	next      int
	vars      []*Term
}

func NewTermTable() *TermTable { return &TermTable{tab: map[termKey]*Term{}} }

func mask(w int) uint64 {
	if w >= 64 {
		return ^uint64(0)
	}
	return (uint64(1) << uint(w)) - 1
}

func (tt *TermTable) mk(op Op, w int, c uint64, name string, args ...*Term) *Term {
	k := termKey{op: op, w: w, c: c, name: name, a0: -1, a1: -1, a2: -1}
	switch len(args) {
	case 3:
		k.a2 = args[2].ID
		fallthrough
	case 2:
		k.a1 = args[1].ID
		fallthrough
	case 1:
		k.a0 = args[0].ID
	}
	if t, ok := tt.tab[k]; ok {
		return t
	}
	t := &Term{ID: tt.next, Op: op, W: w, Args: args, C: c, Name: name}
	tt.next++
	tt.tab[k] = t
	if op == OVar {
		tt.vars = append(tt.vars, t)
	}
	return t
}

func (tt *TermTable) Const(w int, v uint64) *Term {
	if w == 0 {
		return tt.mk(OConst, 0, v&1, "")
	}
	return tt.mk(OConst, w, v&mask(w), "")
}
func (tt *TermTable) Bool(b bool) *Term {
	if b {
		return tt.mk(OConst, 0, 1, "")
	}
	return tt.mk(OConst, 0, 0, "")
}
func (tt *TermTable) Var(name string, w int) *Term { return tt.mk(OVar, w, 0, name) }

func (t *Term) IsConst() bool { return t.Op == OConst }
func (t *Term) IsTrue() bool  { return t.Op == OConst && t.W == 0 && t.C == 1 }
func (t *Term) IsFalse() bool { return t.Op == OConst && t.W == 0 && t.C == 0 }

func sext(v uint64, w int) int64 {
	if w >= 64 {
		return int64(v)
	}
	if v&(1<<uint(w-1)) != 0 {
		return int64(v | ^mask(w))
	}
	return int64(v)
}

// evalOp computes op on constant args.
func evalOp(op Op, w int, c uint64, a []uint64, aw []int) uint64 {
	b2u := func(b bool) uint64 {
		if b {
			return 1
		}
		return 0
	}
	switch op {
	case ONot:
		return a[0] ^ 1
	case OAnd:
		return a[0] & a[1]
	case OOr:
		return a[0] | a[1]
	case OEq:
		return b2u(a[0] == a[1])
	case OUlt:
		return b2u(a[0] < a[1])
	case OUle:
		return b2u(a[0] <= a[1])
	case OSlt:
		return b2u(sext(a[0], aw[0]) < sext(a[1], aw[1]))
	case OSle:
		return b2u(sext(a[0], aw[0]) <= sext(a[1], aw[1]))
	case OIte:
		if a[0] == 1 {
			return a[1]
		}
		return a[2]
	case OBvNot:
		return ^a[0] & mask(w)
	case OBvNeg:
		return (-a[0]) & mask(w)
	case OAdd:
		return (a[0] + a[1]) & mask(w)
	case OSub:
		return (a[0] - a[1]) & mask(w)
	case OMul:
		return (a[0] * a[1]) & mask(w)
	case OUDiv:
		if a[1] == 0 {
			return mask(w)
		}
		return a[0] / a[1]
	case OURem:
		if a[1] == 0 {
			return a[0]
		}
		return a[0] % a[1]
	case OSDiv:
		x, y := sext(a[0], w), sext(a[1], w)
		if y == 0 {
			if x < 0 {
				return 1
			}
			return mask(w)
		}
		if y == -1 {
			return uint64(-x) & mask(w)
		}
		return uint64(x/y) & mask(w)
	case OSRem:
		x, y := sext(a[0], w), sext(a[1], w)
		if y == 0 {
			return a[0]
		}
		if y == -1 {
			return 0
		}
		return uint64(x%y) & mask(w)
	case OBvAnd:
		return a[0] & a[1]
	case OBvOr:
		return a[0] | a[1]
	case OBvXor:
		return a[0] ^ a[1]
	case OShl:
		if a[1] >= uint64(w) {
			return 0
		}
		return (a[0] << a[1]) & mask(w)
	case OLshr:
		if a[1] >= uint64(w) {
			return 0
		}
		return a[0] >> a[1]
	case OAshr:
		x := sext(a[0], w)
		s := a[1]
		if s >= uint64(w) {
			s = uint64(w - 1)
		}
		return uint64(x>>s) & mask(w)
	case OExtract:
		hi, lo := int(c>>8), int(c&0xff)
		return (a[0] >> uint(lo)) & mask(hi-lo+1)
	case OConcat:
		return ((a[0] << uint(aw[1])) | a[1]) & mask(w)
	case OZExt:
		return a[0]
	case OSExt:
		return uint64(sext(a[0], aw[0])) & mask(w)
	}
	panic("evalOp")
}

func (tt *TermTable) app(op Op, w int, c uint64, args ...*Term) *Term {
	all := true
	for _, a := range args {
		if !a.IsConst() {
			all = false
			break
		}
	}
	if all {
		av := make([]uint64, len(args))
		aw := make([]int, len(args))
		for i, a := range args {
			av[i], aw[i] = a.C, a.W
		}
		return tt.Const(w, evalOp(op, w, c, av, aw))
	}
	return tt.mk(op, w, c, "", args...)
}

func (tt *TermTable) Not(a *Term) *Term {
	if a.Op == ONot {
		return a.Args[0]
	}
	return tt.app(ONot, 0, 0, a)
}
func (tt *TermTable) And(a, b *Term) *Term {
	if a.IsFalse() || b.IsFalse() {
		return tt.Bool(false)
	}
	if a.IsTrue() {
		return b
	}
	if b.IsTrue() || a == b {
		return a
	}
	return tt.app(OAnd, 0, 0, a, b)
}
func (tt *TermTable) Or(a, b *Term) *Term {
	if a.IsTrue() || b.IsTrue() {
		return tt.Bool(true)
	}
	if a.IsFalse() {
		return b
	}
	if b.IsFalse() || a == b {
		return a
	}
	return tt.app(OOr, 0, 0, a, b)
}
func (tt *TermTable) Eq(a, b *Term) *Term {
	if a == b {
		return tt.Bool(true)
	}
	if a.W != b.W {
		panic(fmt.Sprintf("Eq width mismatch %d %d", a.W, b.W))
	}
	if a.W == 0 {
		if b.IsTrue() {
			return a
		}
		if a.IsTrue() {
			return b
		}
		if b.IsFalse() {
			return tt.Not(a)
		}
		if a.IsFalse() {
			return tt.Not(b)
		}
	}
	if a.IsConst() && b.IsConst() {
		return tt.Bool(a.C == b.C)
	}
	if !tt.NoRewrite && a.W > 0 {
		// ite(c, k1, k2) = k
		if a.IsConst() {
			a, b = b, a
		}
		if tt.iteConst(a) && b.IsConst() {
			k1, k2 := a.Args[1].C, a.Args[2].C
			switch {
			case k1 == b.C && k2 == b.C:
				return tt.Bool(true)
			case k1 == b.C:
				return a.Args[0]
			case k2 == b.C:
				return tt.Not(a.Args[0])
			default:
				return tt.Bool(false)
			}
		}
		if r := tt.eqSegs(a, b); r != nil {
			return r
		}
	}
	if a.ID > b.ID {
		a, b = b, a
	}
	return tt.app(OEq, 0, 0, a, b)
}
func (tt *TermTable) Cmp(op Op, a, b *Term) *Term {
	if a.W != b.W {
		panic("Cmp width mismatch")
	}
	if a == b {
		return tt.Bool(op == OUle || op == OSle)
	}
	return tt.app(op, 0, 0, a, b)
}
func (tt *TermTable) Ite(c, a, b *Term) *Term {
	if c.IsTrue() {
		return a
	}
	if c.IsFalse() {
		return b
	}
	if a == b {
		return a
	}
	return tt.app(OIte, a.W, 0, c, a, b)
}
func (tt *TermTable) Bin(op Op, a, b *Term) *Term {
	if a.W != b.W {
		panic(fmt.Sprintf("Bin %v width mismatch %d %d", op, a.W, b.W))
	}
	w := a.W
	switch op {
	case OAdd, OBvOr, OBvXor:
		if a.IsConst() && a.C == 0 {
			return b
		}
		if b.IsConst() && b.C == 0 {
			return a
		}
	case OSub, OShl, OLshr, OAshr:
		if b.IsConst() && b.C == 0 {
			return a
		}
	case OBvAnd:
		if (a.IsConst() && a.C == 0) || (b.IsConst() && b.C == 0) {
			return tt.Const(w, 0)
		}
		if a.IsConst() && a.C == mask(w) {
			return b
		}
		if b.IsConst() && b.C == mask(w) {
			return a
		}
	case OMul:
		if (a.IsConst() && a.C == 0) || (b.IsConst() && b.C == 0) {
			return tt.Const(w, 0)
		}
		if a.IsConst() && a.C == 1 {
			return b
		}
		if b.IsConst() && b.C == 1 {
			return a
		}
	}
	if a.IsConst() && b.IsConst() {
		return tt.app(op, w, 0, a, b)
	}
	if !tt.NoRewrite {
		// push operations with a constant operand into ite(c, k1, k2)
		if tt.iteConst(a) && b.IsConst() {
			return tt.Ite(a.Args[0], tt.app(op, w, 0, a.Args[1], b), tt.app(op, w, 0, a.Args[2], b))
		}
		if tt.iteConst(b) && a.IsConst() {
			return tt.Ite(b.Args[0], tt.app(op, w, 0, a, b.Args[1]), tt.app(op, w, 0, a, b.Args[2]))
		}
		switch op {
		case OShl:
			if b.IsConst() {
				k := int(b.C)
				if b.C >= uint64(w) {
					return tt.Const(w, 0)
				}
				segs := tt.sliceSegs(tt.segsOf(a, nil), w-1-k, 0)
				segs = append(segs, seg{tt.Const(k, 0)})
				return tt.fromSegs(segs)
			}
		case OLshr:
			if b.IsConst() {
				k := int(b.C)
				if b.C >= uint64(w) {
					return tt.Const(w, 0)
				}
				segs := append([]seg{{tt.Const(k, 0)}}, tt.sliceSegs(tt.segsOf(a, nil), w-1, k)...)
				return tt.fromSegs(segs)
			}
		case OBvAnd, OBvOr, OBvXor:
			if r := tt.bitwise(op, a, b); r != nil {
				return r
			}
		case OAdd:
			if r := tt.bitwise2(OBvOr, a, b, true); r != nil {
				return r
			}
		case OURem:
			// x % 2^k
			if b.IsConst() && b.C&(b.C-1) == 0 && b.C != 0 {
				return tt.Bin(OBvAnd, a, tt.Const(w, b.C-1))
			}
		case OUDiv:
			if b.IsConst() && b.C&(b.C-1) == 0 && b.C != 0 {
				k := 0
				for (uint64(1) << uint(k)) != b.C {
					k++
				}
				return tt.Bin(OLshr, a, tt.Const(w, uint64(k)))
			}
		case OMul:
			if b.IsConst() && b.C&(b.C-1) == 0 {
				k := 0
				for (uint64(1) << uint(k)) != b.C {
					k++
				}
				return tt.Bin(OShl, a, tt.Const(w, uint64(k)))
			}
			if a.IsConst() && a.C&(a.C-1) == 0 {
				k := 0
				for (uint64(1) << uint(k)) != a.C {
					k++
				}
				return tt.Bin(OShl, b, tt.Const(w, uint64(k)))
			}
		}
	}
	return tt.app(op, w, 0, a, b)
}
func (tt *TermTable) Un(op Op, a *Term) *Term { return tt.app(op, a.W, 0, a) }

func (tt *TermTable) Extract(hi, lo int, a *Term) *Term {
	if lo == 0 && hi == a.W-1 {
		return a
	}
	if tt.NoRewrite {
		return tt.app(OExtract, hi-lo+1, uint64(hi)<<8|uint64(lo), a)
	}
	return tt.fromSegs(tt.sliceSegs(tt.segsOf(a, nil), hi, lo))
}
func (tt *TermTable) Concat(a, b *Term) *Term {
	if tt.NoRewrite {
		return tt.app(OConcat, a.W+b.W, 0, a, b)
	}
	return tt.fromSegs(tt.segsOf(b, tt.segsOf(a, nil)))
}
func (tt *TermTable) ZExt(a *Term, w int) *Term {
	if w == a.W {
		return a
	}
	if w < a.W {
		return tt.Extract(w-1, 0, a)
	}
	if tt.NoRewrite {
		return tt.app(OZExt, w, 0, a)
	}
	if tt.iteConst(a) {
		return tt.Ite(a.Args[0], tt.Const(w, a.Args[1].C), tt.Const(w, a.Args[2].C))
	}
	return tt.mkZExt(a, w)
}
func (tt *TermTable) SExt(a *Term, w int) *Term {
	if w == a.W {
		return a
	}
	if w < a.W {
		return tt.Extract(w-1, 0, a)
	}
	return tt.app(OSExt, w, 0, a)
}

// Eval evaluates t under a model (missing variables are 0).
func Eval(t *Term, model map[string]uint64, memo map[int]uint64) uint64 {
	if v, ok := memo[t.ID]; ok {
		return v
	}
	var r uint64
	switch t.Op {
	case OConst:
		r = t.C
	case OVar:
		r = model[t.Name] & mask(max(t.W, 1))
	default:
		av := make([]uint64, len(t.Args))
		aw := make([]int, len(t.Args))
		for i, a := range t.Args {
			av[i], aw[i] = Eval(a, model, memo), a.W
		}
		r = evalOp(t.Op, t.W, t.C, av, aw)
	}
	memo[t.ID] = r
	return r
}

func sortStr(w int) string {
	if w == 0 {
		return "Bool"
	}
	return fmt.Sprintf("(_ BitVec %d)", w)
}

func constStr(t *Term) string {
	if t.W == 0 {
		if t.C == 1 {
			return "true"
		}
		return "false"
	}
	if t.W%4 == 0 {
		return fmt.Sprintf("#x%0*x", t.W/4, t.C)
	}
	return fmt.Sprintf("#b%0*b", t.W, t.C)
}

// Vars collects the variable names of t.
func Vars(t *Term, seen map[int]bool, out map[string]bool) {
	if seen[t.ID] {
		return
	}
	seen[t.ID] = true
	if t.Op == OVar {
		out[t.Name] = true
	}
	for _, a := range t.Args {
		Vars(a, seen, out)
	}
}
