package main

// The capacity a Go slice gets from the runtime decides whether a later
// append writes in place (into memory the slice shares with whoever else
// holds it) or into a fresh array. Bugs of that kind - "append to a copy of
// the slice header" - only show when the spare capacity is modelled, so the
// engine follows the gc runtime (go1.20+): growslice's growth formula, and
// rounding of the allocation to a malloc size class for both append and
// []byte(string) conversions. make([]T, n) has capacity n exactly.

var sizeClasses = []int{0, 8, 16, 24, 32, 48, 64, 80, 96, 112, 128, 144, 160, 176, 192, 208, 224, 240, 256,
	288, 320, 352, 384, 416, 448, 480, 512, 576, 640, 704, 768, 896, 1024, 1152, 1280, 1408, 1536, 1792, 2048,
	2304, 2688, 3072, 3200, 3456, 4096, 4864, 5376, 6144, 6528, 6784, 6912, 8192, 9472, 9728, 10240, 10880,
	12288, 13568, 14336, 16384, 18432, 19072, 20480, 21760, 24576, 27264, 28672, 32768}

func roundupsize(n int) int {
	if n <= 32768 {
		for _, c := range sizeClasses {
			if c >= n {
				return c
			}
		}
	}
	const page = 8192
	return (n + page - 1) / page * page
}

// growCap: capacity after append grows a slice of capacity oldCap to hold
// newLen elements of elemSize bytes.
func growCap(oldCap, newLen, elemSize int) int {
	newcap := nextslicecap(newLen, oldCap)
	if elemSize <= 0 {
		return newcap
	}
	return roundupsize(newcap*elemSize) / elemSize
}

func nextslicecap(newLen, oldCap int) int {
	newcap := oldCap
	doublecap := newcap + newcap
	if newLen > doublecap {
		return newLen
	}
	const threshold = 256
	if oldCap < threshold {
		return doublecap
	}
	for {
		newcap += (newcap + 3*threshold) >> 2
		if uint(newcap) >= uint(newLen) {
			break
		}
	}
	if newcap <= 0 {
		return newLen
	}
	return newcap
}
