//go:build verif

package mq

// C11 — encoding is deterministic and read-only.
// C13 — read-only operations on a shared packet are safe to run concurrently
//       (decided through the premise: they perform no write to shared memory).

// zzReadOnlyOps runs String, Dump, WellFormed and every accessor.
func zzReadOnlyOps(p ControlPacket) {
	_ = p.String()
	var w zzRopeW
	Dump(&w, p)
	_ = w.String()
	if wf, ok := p.(HasWellFormed); ok {
		_ = wf.WellFormed()
	}
	_ = zzSnap(p)
}

// ZZ_C11_det: a[0] = 1: all six orders (else three), a[1:] = shape. The packet is encoded under different map
// iteration orders (the Go runtime randomises every iteration independently,
// and differently in every process): all iterations in insertion order, all
// reversed, alternating (consecutive passes over the same map see different
// orders), and rotated. All encodings, with the read-only operations in
// between, must be byte-identical and the operations must not change any
// accessor value.
func ZZ_C11_det(a []int) {
	abs := zzGen(zzShapeOf(a[1:]))
	p := zzBuild(abs)
	s0 := zzSnap(p)
	var w1 zzSink
	_, e1 := p.WriteTo(&w1)
	zzAssert(e1 == nil, "WriteTo reports an error")
	zzReadOnlyOps(p)
	modes := []string{"rev", "alt", "rot1"}
	if a[0] == 1 {
		modes = []string{"", "rev", "alt", "rot1", "rot2", "rot3"}
	}
	for _, mode := range modes {
		zzOrderMode(mode)
		var w2 zzSink
		_, e2 := p.WriteTo(&w2)
		zzOrderMode("")
		zzAssert(e2 == nil, "WriteTo reports an error")
		if len(w1.b) != len(w2.b) {
			zzAssert(false, "two encodings of the same packet differ (length)")
		} else {
			zzAssert(zzBytesEq(w1.b, w2.b), "two encodings of the same packet differ")
		}
	}
	zzReach("det")
	zzViewEq(zzSnap(p), s0, "read-only operations changed an accessor value")
	zzEmitU("len", uint64(len(w1.b)))
}

// ZZ_C11_proc: the same packet encoded in two processes: package-level
// variables are initialised again under another map iteration order and the
// packet is rebuilt from the same values. a = shape.
func ZZ_C11_proc(a []int) {
	abs := zzGen(zzShapeOf(a))
	var w1 zzSink
	zzBuild(abs).WriteTo(&w1)
	for _, mode := range []string{"rev", "rot1"} {
		zzNewProcess(mode)
		var w2 zzSink
		zzBuild(abs).WriteTo(&w2)
		if len(w1.b) != len(w2.b) {
			zzAssert(false, "two processes encode the same packet differently (length)")
		} else {
			zzAssert(zzBytesEq(w1.b, w2.b), "two processes encode the same packet differently")
		}
	}
	zzReach("proc")
	zzEmitB("frame", w1.b)
}

// ZZ_C11_native is the native demonstration for order-dependent violations:
// the Go runtime randomises map iteration, so the same packet is encoded
// many times until two encodings differ.
func ZZ_C11_native(a []int) {
	abs := zzGen(zzShapeOf(a[1:]))
	p := zzBuild(abs)
	var first zzSink
	p.WriteTo(&first)
	for i := 0; i < 2000; i++ {
		var w zzSink
		p.WriteTo(&w)
		if string(w.b) != string(first.b) {
			if len(w.b) != len(first.b) {
				zzAssert(false, "two encodings of the same packet differ (length)")
			}
			zzAssert(false, "two encodings of the same packet differ")
		}
	}
}

// ZZ_C13_ro: a[0] = 0 built / 1 decoded packet, a[1:] = shape. After the
// packet exists everything allocated so far and all package-level variables
// are "shared"; the read-only operations and a ReadPacket on a private
// stream must not write to shared memory on any path.
func ZZ_C13_ro(a []int) {
	abs := zzGen(zzShapeOf(a[1:]))
	var p ControlPacket
	if a[0] == 0 {
		p = zzBuild(abs)
	} else {
		q, err := ReadPacket(&zzContig{b: zzRefEncode(abs)})
		if err != nil {
			return
		}
		p = q
	}
	private := zzRefEncode(abs)
	zzMarkShared()
	var w1 zzSink
	p.WriteTo(&w1)
	zzAssert(zzSharedWrites() == 0, "monitor: WriteTo writes to memory shared with other goroutines")
	zzReadOnlyOps(p)
	zzAssert(zzSharedWrites() == 0, "monitor: String/Dump/WellFormed/accessors write to memory shared with other goroutines")
	ReadPacket(&zzContig{b: private})
	zzAssert(zzSharedWrites() == 0, "monitor: ReadPacket on a private stream writes to memory shared with other goroutines")
	var w2 zzSink
	p.WriteTo(&w2)
	zzReach("ro")
	zzAssert(zzSharedWrites() == 0, "monitor: WriteTo writes to memory shared with other goroutines")
	if len(w1.b) == len(w2.b) {
		zzAssert(zzBytesEq(w1.b, w2.b), "two encodings of the same packet differ")
	} else {
		zzAssert(false, "two encodings of the same packet differ (length)")
	}
}

// ZZ_C13_will: a will message shared between a CONNECT and direct use.
func ZZ_C13_will(a []int) {
	abs := zzGen(zzShapeOf(a))
	w := zzBuildWill(abs)
	c := NewConnect()
	c.SetWill(w)
	zzMarkShared()
	var s1, s2 zzSink
	c.WriteTo(&s1)
	w.WriteTo(&s2)
	zzReadOnlyOps(c)
	zzReadOnlyOps(w)
	c.WriteTo(&s1)
	zzReach("will")
	zzAssert(zzSharedWrites() == 0, "monitor: read-only use of a shared will message writes to shared memory")
}

// zzWillMod changes an attached will message through its own setters before
// anything is shared (mode 1 payload, 2 topic, 3 flags, 4 properties).
func zzWillMod(w *Publish, mode int) {
	switch mode {
	case 1:
		w.SetPayload(zzBytes("np", 2))
	case 2:
		w.SetTopicName(string(zzBytes("nt", 2)))
	case 3:
		w.SetQoS(2)
		w.SetRetain(true)
		w.SetDuplicate(true)
	case 4:
		w.SetContentType(string(zzBytes("nc", 2)))
		w.AddUserProp("k", "v")
	}
}

// ZZ_C13_willmod: a[0] = modification of the will message after SetWill and
// before sharing (the CONNECT then holds state that differs from the will's),
// a[1:] = shape. Read-only operations must still not write.
func ZZ_C13_willmod(a []int) {
	abs := zzGen(zzShapeOf(a[1:]))
	w := zzBuildWill(abs)
	c := NewConnect()
	c.SetWill(w)
	zzWillMod(w, a[0])
	zzMarkShared()
	var s1, s2 zzSink
	c.WriteTo(&s1)
	zzAssert(zzSharedWrites() == 0, "monitor: WriteTo of a CONNECT whose will message was changed after SetWill writes to shared memory")
	w.WriteTo(&s2)
	zzReadOnlyOps(c)
	zzReadOnlyOps(w)
	c.WriteTo(&s1)
	zzReach("willmod")
	zzAssert(zzSharedWrites() == 0, "monitor: read-only use of a shared will message writes to shared memory")
}

// ZZ_C13_subid: a SUBSCRIBE whose subscription identifier is any 32-bit
// value, zero included (present-but-zero is a state the setters reach).
func ZZ_C13_subid(a []int) {
	p := NewSubscribe()
	p.SetPacketID(zzU16("pid"))
	p.SetSubscriptionID(int(zzU32("sid")))
	p.AddFilters(NewTopicFilter(string(zzBytes("f", 1)), Opt(zzU8("o")&3)))
	zzMarkShared()
	var w1 zzSink
	p.WriteTo(&w1)
	zzAssert(zzSharedWrites() == 0, "monitor: WriteTo writes to memory shared with other goroutines")
	zzReadOnlyOps(p)
	zzReach("subid")
	zzAssert(zzSharedWrites() == 0, "monitor: String/Dump/WellFormed/accessors write to memory shared with other goroutines")
}

// ZZ_C13_read: ReadPacket of a short frame (type nibble a[0], a[1] arbitrary
// body bytes) while everything that existed before is shared: decoding on a
// private stream must not write to shared or package-level memory.
func ZZ_C13_read(a []int) {
	n := a[1]
	f := append([]byte{byte(a[0])<<4 | zzU8("fl")&0x0f, byte(n)}, zzBytes("b", n)...)
	zzMarkShared()
	_, err := ReadPacket(&zzContig{b: f})
	zzReach("read")
	zzEmitU("err", zzB2U(err != nil))
	zzAssert(zzSharedWrites() == 0, "monitor: ReadPacket on a private stream writes to memory shared with other goroutines")
}
