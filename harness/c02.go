//go:build verif

package mq

// C02 — everything WriteTo emits is a structurally valid MQTT v5.0 frame,
// judged by the reference decoder.

// ZZ_C02_valid: a = shape of a well-formed packet.
func ZZ_C02_valid(a []int) {
	sh := zzShapeOf(a)
	abs := zzGen(sh)
	p := zzBuild(abs)
	var w zzSink
	n, err := p.WriteTo(&w)
	zzAssert(err == nil, "WriteTo reports an error")
	f := w.b
	zzReach("written")
	if len(f) < 2 {
		zzAssert(false, "frame shorter than a fixed header")
		return
	}
	rl, vn, ok := zzVbParse(f[1:])
	zzAssert(ok, "remaining length is not a terminated variable byte integer")
	if !ok {
		return
	}
	zzAssert(zzRefVbWidth(uint32(rl)) == vn, "remaining length is not in minimal form")
	zzAssert(len(f) == 1+vn+rl, "remaining length differs from the number of bytes that follow")
	zzAssert(int(n) == len(f), "WriteTo byte count")
	if len(f) != 1+vn+rl {
		return
	}
	dec, verdict := zzRefDecode(f[0], f[1+vn:])
	zzAssert(verdict == zzVALID, "the specification-derived decoder does not accept the frame")
	if verdict != zzVALID {
		zzEmitU("verdict", uint64(verdict))
		return
	}
	zzReach("valid")
	zzAssert(int(f[0]>>4) == abs.typ, "packet type nibble")
	zzViewEq(zzExpect(dec), zzExpect(abs), "specification reading")
	zzEmitU("len", uint64(len(f)))
	if len(f) <= 64 {
		zzEmitB("frame", f)
	}
}
