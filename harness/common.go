//go:build verif

package mq

import "io"

// zzNew returns a zero packet of the type selected by the nibble t.
func zzNew(t int) ControlPacket {
	switch t {
	case 0:
		return &Undefined{}
	case 1:
		return &Connect{}
	case 2:
		return &ConnAck{}
	case 3:
		return &Publish{}
	case 4:
		return &PubAck{}
	case 5:
		return &PubRec{}
	case 6:
		return &PubRel{}
	case 7:
		return &PubComp{}
	case 8:
		return &Subscribe{}
	case 9:
		return &SubAck{}
	case 10:
		return &Unsubscribe{}
	case 11:
		return &UnsubAck{}
	case 12:
		return &PingReq{}
	case 13:
		return &PingResp{}
	case 14:
		return &Disconnect{}
	case 15:
		return &Auth{}
	}
	return nil
}

// zzContig is a reader that delivers as many bytes as are asked for, like
// bytes.Reader, and counts what it handed out.
type zzContig struct {
	b []byte
	i int
}

func (r *zzContig) Read(p []byte) (int, error) {
	if r.i >= len(r.b) {
		return 0, io.EOF
	}
	n := copy(p, r.b[r.i:])
	r.i += n
	return n, nil
}

// zzSink is a writer that accepts everything and keeps it.
type zzSink struct {
	b     []byte
	calls int
}

func (w *zzSink) Write(p []byte) (int, error) {
	w.calls++
	w.b = append(w.b, p...)
	return len(p), nil
}
