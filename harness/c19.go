//go:build verif

package mq

// C19 — String and Dump are total on every packet value. Panics and
// non-termination inside the library are engine-level path outcomes.

func zzRenderAll(p ControlPacket) {
	s := p.String()
	var w zzRopeW
	Dump(&w, p)
	zzEmitS("s", s)
	zzEmitS("d", w.String())
}

// ZZ_C19_zero: zero values and freshly constructed packets of all types.
func ZZ_C19_zero(a []int) {
	for t := 0; t <= 15; t++ {
		zzRenderAll(zzNew(t))
		if p, _ := zzFresh(t); p != nil {
			zzRenderAll(p)
		}
	}
	var tf TopicFilter
	zzEmitS("tf", tf.String())
	var up UserProp
	zzEmitS("up", up.String())
	var ups UserProperties
	ups.AddUserProp("k", "v")
	var m Malformed
	zzEmitS("m", m.Error())
	zzReach("zero")
}

// ZZ_C19_um: the receiver of UnmarshalBinary of type a[0] on a[1] arbitrary
// bytes is rendered whether or not decoding succeeded.
func ZZ_C19_um(a []int) {
	p := zzNew(a[0])
	_ = p.UnmarshalBinary(zzBytes("b", a[1]))
	zzReach("um")
	zzRenderAll(p)
}

// ZZ_C19_rp: packets returned by ReadPacket on a[0] arbitrary bytes (first
// byte included, so every header flag combination).
func ZZ_C19_rp(a []int) {
	m := a[0]
	s := zzBytes("s", m)
	if m >= 2 {
		rl, _, ok := zzVbParse(s[1:])
		if ok {
			zzAssume(rl <= m+2)
		}
	}
	p, err := ReadPacket(&zzContig{b: s})
	zzReach("rp")
	if err == nil {
		zzRenderAll(p)
	}
}

// ZZ_C19_seq: packets under construction: fresh packet of type a[0], setter
// sequence a[2:], rendered after every step.
func ZZ_C19_seq(a []int) {
	p, abs := zzFresh(a[0])
	zzRenderAll(p)
	for i, k := range a[2:] {
		if !zzApplySetter(p, abs, k, a[1], "s"+zzItoa(i)+".") {
			return
		}
		zzRenderAll(p)
	}
	zzReach("seq")
}

// ZZ_C19_bytes: the renderings of single bytes, all 256 values as one symbol.
func ZZ_C19_bytes(a []int) {
	x := zzU8("x")
	switch a[0] {
	case 0: // reason codes
		zzEmitS("rc", ReasonCode(x).String())
		p := NewConnAck()
		p.SetReasonCode(ReasonCode(x))
		zzRenderAll(p)
		d := NewDisconnect()
		d.SetReasonCode(ReasonCode(x))
		zzRenderAll(d)
		r := NewPubRec()
		r.SetReasonCode(ReasonCode(x))
		r.SetReasonString("why")
		zzRenderAll(r)
		c := NewPubComp()
		c.SetReasonCode(ReasonCode(x))
		zzRenderAll(c)
		k := NewPubAck()
		k.SetReasonCode(ReasonCode(x))
		k.SetReasonString("why")
		zzRenderAll(k)
		s := NewSubAck()
		s.AddReasonCode(ReasonCode(x))
		zzRenderAll(s)
	case 1: // first byte: every type with every flag nibble
		p, err := ReadPacket(&zzContig{b: []byte{x, 0}})
		if err == nil {
			zzRenderAll(p)
		}
	case 2: // CONNECT flags
		var e zzEnc
		e.str([]byte("MQTT"))
		e.u8(5)
		e.u8(x)
		e.u16(10)
		e.u8(0)
		e.str([]byte("c"))
		// will, user name, password as far as the flags ask for them
		e.b = append(e.b, 0, 0, 1, 't', 0, 0, 0, 1, 'u', 0, 1, 'p')
		p := &Connect{}
		_ = p.UnmarshalBinary(e.b)
		zzRenderAll(p)
	case 3: // CONNACK flags
		p := &ConnAck{}
		_ = p.UnmarshalBinary([]byte{x, 0, 0})
		zzRenderAll(p)
	case 5: // values outside MQTT's ranges that the setters accept
		p := NewSubscribe()
		p.SetSubscriptionID(int(zzU64("sid")))
		p.AddFilters(NewTopicFilter("a", Opt(x)))
		zzRenderAll(p)
		var w zzSink
		p.WriteTo(&w)
	case 6:
		p := NewPublish()
		p.SetQoS(x)
		p.AddSubscriptionID(zzU32("sub"))
		p.SetTopicAlias(zzU16("alias"))
		zzRenderAll(p)
		var w zzSink
		p.WriteTo(&w)
	case 4: // subscription options
		tf := NewTopicFilter("a/b", Opt(x))
		zzEmitS("tf", tf.String())
		p := NewSubscribe()
		p.AddFilters(tf)
		zzRenderAll(p)
	}
	zzReach("bytes")
}

// ZZ_C19_many (T-mode): packets of shape a with many user properties and
// list elements (the positions printed by Dump get two, three and four
// digits), built through the API and decoded from the wire.
func ZZ_C19_many(a []int) {
	sh := zzShapeOf(a)
	sh.nz = 3
	abs := zzGen(sh)
	zzRenderAll(zzBuild(abs))
	q, err := ReadPacket(&zzContig{b: zzRefEncode(abs)})
	if err == nil {
		zzRenderAll(q)
	}
	zzReach("many")
}
