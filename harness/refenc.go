//go:build verif

package mq

// Reference encoder: abstract packet -> frame, by the specification. It also
// records the "units" of the body: byte ranges [start,end) that form one
// field in the sense of C09 (a) — a two- or four-byte integer, a length
// prefixed string or binary, a variable byte integer, or a property
// identifier together with its value.

type zzEnc struct {
	b     []byte
	units [][2]int
	noU   int // >0: inside a larger unit, do not record inner fields
}

func (e *zzEnc) unit(start int) {
	if e.noU == 0 && len(e.b)-start >= 2 {
		e.units = append(e.units, [2]int{start, len(e.b)})
	}
}

func zzVbiBytes(x uint32) []byte {
	// minimal form, one to four bytes; the number of bytes is decided by
	// comparisons, the bytes by shifts and masks
	n := 1
	if x >= 128 {
		n = 2
	}
	if x >= 16384 {
		n = 3
	}
	if x >= 2097152 {
		n = 4
	}
	var b []byte
	for i := 0; i < n; i++ {
		c := byte(x>>(7*uint(i))) & 0x7f
		if i < n-1 {
			c |= 0x80
		}
		b = append(b, c)
	}
	return b
}

func (e *zzEnc) vbi(x uint32) {
	s := len(e.b)
	e.b = append(e.b, zzVbiBytes(x)...)
	e.unit(s)
}
func (e *zzEnc) u8(x byte) { e.b = append(e.b, x) }
func (e *zzEnc) u16(x uint16) {
	s := len(e.b)
	e.b = append(e.b, byte(x>>8), byte(x))
	e.unit(s)
}
func (e *zzEnc) u32(x uint32) {
	s := len(e.b)
	e.b = append(e.b, byte(x>>24), byte(x>>16), byte(x>>8), byte(x))
	e.unit(s)
}
func (e *zzEnc) str(x []byte) {
	s := len(e.b)
	e.b = append(e.b, byte(len(x)>>8), byte(len(x)))
	e.b = append(e.b, x...)
	e.unit(s)
}

func (e *zzEnc) props(ps []zzProp) {
	body := &zzEnc{}
	for i := range ps {
		p := &ps[i]
		s := len(body.b)
		body.noU++
		body.u8(p.id)
		switch zzPropType(p.id) {
		case zzTByte:
			body.u8(byte(p.u))
		case zzTU16:
			body.u16(uint16(p.u))
		case zzTU32:
			body.u32(p.u)
		case zzTVbi:
			body.vbi(p.u)
		case zzTStr, zzTBin:
			body.str(p.s)
		case zzTPair:
			body.str(p.s)
			body.str(p.v)
		}
		body.noU--
		body.unit(s)
	}
	e.vbi(uint32(len(body.b)))
	off := len(e.b)
	e.b = append(e.b, body.b...)
	if e.noU == 0 {
		for _, u := range body.units {
			e.units = append(e.units, [2]int{u[0] + off, u[1] + off})
		}
	}
}

// zzRefBodyU encodes variable header and payload and returns the units.
func zzRefBodyU(a *zzAbs) ([]byte, [][2]int) {
	e := &zzEnc{}
	switch a.typ {
	case 1:
		e.str(a.protoName)
		e.u8(a.protoVer)
		e.u8(a.connFlags)
		e.u16(a.keepAlive)
		e.props(a.props)
		e.str(a.clientID)
		if a.hasWill {
			e.props(a.willProps)
			e.str(a.willTopic)
			e.str(a.willPayload)
		}
		if a.hasUser {
			e.str(a.username)
		}
		if a.hasPass {
			e.str(a.password)
		}
	case 2:
		e.u8(a.ackFlags)
		e.u8(a.reason)
		e.props(a.props)
	case 3:
		e.str(a.topic)
		if q := a.hflags & 0x06; q == 2 || q == 4 {
			e.u16(a.pid)
		}
		e.props(a.props)
		e.b = append(e.b, a.payload...)
	case 4, 5, 6, 7:
		e.u16(a.pid)
		if a.form <= 1 {
			e.u8(a.reason)
		}
		if a.form == 0 {
			e.props(a.props)
		}
	case 8:
		e.u16(a.pid)
		e.props(a.props)
		for i := range a.filters {
			e.str(a.filters[i])
			e.u8(a.opts[i])
		}
	case 9, 11:
		e.u16(a.pid)
		e.props(a.props)
		e.b = append(e.b, a.codes...)
	case 10:
		e.u16(a.pid)
		e.props(a.props)
		for i := range a.filters {
			e.str(a.filters[i])
		}
	case 14, 15:
		if a.form <= 1 {
			e.u8(a.reason)
		}
		if a.form == 0 {
			e.props(a.props)
		}
	}
	return e.b, e.units
}

func zzRefBody(a *zzAbs) []byte {
	b, _ := zzRefBodyU(a)
	return b
}

// zzFrame puts the fixed header in front of a body.
func zzFrame(b0 byte, body []byte) []byte {
	f := []byte{b0}
	f = append(f, zzVbiBytes(uint32(len(body)))...)
	return append(f, body...)
}

// zzRefEncode: complete frame.
func zzRefEncode(a *zzAbs) []byte {
	return zzFrame(byte(a.typ)<<4|a.hflags, zzRefBody(a))
}
