//go:build verif

package mq

// Reference encoder: abstract packet -> frame, by the specification.

func zzPutVbi(b []byte, x uint32) []byte {
	// minimal form, one to four bytes; x is concrete or symbolic: the number
	// of bytes is decided by comparisons, the bytes by shifts and masks
	n := 1
	if x >= 128 {
		n = 2
	}
	if x >= 16384 {
		n = 3
	}
	if x >= 2097152 {
		n = 4
	}
	for i := 0; i < n; i++ {
		e := byte(x>>(7*uint(i))) & 0x7f
		if i < n-1 {
			e |= 0x80
		}
		b = append(b, e)
	}
	return b
}

func zzPutU16(b []byte, x uint16) []byte { return append(b, byte(x>>8), byte(x)) }
func zzPutU32(b []byte, x uint32) []byte {
	return append(b, byte(x>>24), byte(x>>16), byte(x>>8), byte(x))
}
func zzPutStr(b []byte, s []byte) []byte {
	b = zzPutU16(b, uint16(len(s)))
	return append(b, s...)
}

func zzPutProps(b []byte, ps []zzProp) []byte {
	var body []byte
	for i := range ps {
		p := &ps[i]
		body = append(body, p.id)
		switch zzPropType(p.id) {
		case zzTByte:
			body = append(body, byte(p.u))
		case zzTU16:
			body = zzPutU16(body, uint16(p.u))
		case zzTU32:
			body = zzPutU32(body, p.u)
		case zzTVbi:
			body = zzPutVbi(body, p.u)
		case zzTStr, zzTBin:
			body = zzPutStr(body, p.s)
		case zzTPair:
			body = zzPutStr(body, p.s)
			body = zzPutStr(body, p.v)
		}
	}
	b = zzPutVbi(b, uint32(len(body)))
	return append(b, body...)
}

// zzRefBody encodes variable header and payload.
func zzRefBody(a *zzAbs) []byte {
	var b []byte
	switch a.typ {
	case 1:
		b = zzPutStr(b, a.protoName)
		b = append(b, a.protoVer, a.connFlags)
		b = zzPutU16(b, a.keepAlive)
		b = zzPutProps(b, a.props)
		b = zzPutStr(b, a.clientID)
		if a.hasWill {
			b = zzPutProps(b, a.willProps)
			b = zzPutStr(b, a.willTopic)
			b = zzPutStr(b, a.willPayload)
		}
		if a.hasUser {
			b = zzPutStr(b, a.username)
		}
		if a.hasPass {
			b = zzPutStr(b, a.password)
		}
	case 2:
		b = append(b, a.ackFlags, a.reason)
		b = zzPutProps(b, a.props)
	case 3:
		b = zzPutStr(b, a.topic)
		if a.hflags&0x06 != 0 {
			b = zzPutU16(b, a.pid)
		}
		b = zzPutProps(b, a.props)
		b = append(b, a.payload...)
	case 4, 5, 6, 7:
		b = zzPutU16(b, a.pid)
		if a.form <= 1 {
			b = append(b, a.reason)
		}
		if a.form == 0 {
			b = zzPutProps(b, a.props)
		}
	case 8:
		b = zzPutU16(b, a.pid)
		b = zzPutProps(b, a.props)
		for i := range a.filters {
			b = zzPutStr(b, a.filters[i])
			b = append(b, a.opts[i])
		}
	case 9, 11:
		b = zzPutU16(b, a.pid)
		b = zzPutProps(b, a.props)
		b = append(b, a.codes...)
	case 10:
		b = zzPutU16(b, a.pid)
		b = zzPutProps(b, a.props)
		for i := range a.filters {
			b = zzPutStr(b, a.filters[i])
		}
	case 14, 15:
		if a.form <= 1 {
			b = append(b, a.reason)
		}
		if a.form == 0 {
			b = zzPutProps(b, a.props)
		}
	}
	return b
}

// zzRefEncode: complete frame.
func zzRefEncode(a *zzAbs) []byte {
	body := zzRefBody(a)
	f := []byte{byte(a.typ)<<4 | a.hflags}
	f = zzPutVbi(f, uint32(len(body)))
	return append(f, body...)
}
