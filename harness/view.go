//go:build verif

package mq

// Observations. zzSnap calls every public accessor of a packet; zzExpect
// computes, from an abstract packet, what those accessors must return. Two
// views are compared observation by observation.

type zzView struct {
	names []string
	isStr []bool
	nums  []uint64
	strs  [][]byte
}

func (v *zzView) n(name string, x uint64) {
	v.names = append(v.names, name)
	v.isStr = append(v.isStr, false)
	v.nums = append(v.nums, x)
	v.strs = append(v.strs, nil)
}
func (v *zzView) b(name string, x bool) { v.n(name, zzB2U(x)) }
func (v *zzView) s(name string, x []byte) {
	v.names = append(v.names, name)
	v.isStr = append(v.isStr, true)
	v.nums = append(v.nums, 0)
	// a snapshot owns its bytes
	v.strs = append(v.strs, append([]byte(nil), x...))
}

// zzViewEq asserts that got equals want, one assertion per observation.
func zzViewEq(got, want *zzView, what string) {
	if len(got.names) != len(want.names) {
		zzAssert(false, what+": number of observations differs (list lengths)")
		return
	}
	for i := range want.names {
		if got.names[i] != want.names[i] {
			zzAssert(false, what+": observation "+want.names[i]+" missing")
			return
		}
		if want.isStr[i] {
			if len(got.strs[i]) != len(want.strs[i]) {
				zzAssert(false, what+": "+want.names[i]+" (length)")
				continue
			}
			zzAssert(zzBytesEq(got.strs[i], want.strs[i]), what+": "+want.names[i])
		} else {
			zzAssert(got.nums[i] == want.nums[i], what+": "+want.names[i])
		}
	}
}

// zzViewEmit publishes a view for translation validation.
func zzViewEmit(v *zzView, tag string) {
	for i := range v.names {
		if v.isStr[i] {
			zzEmitB(tag+v.names[i], v.strs[i])
		} else {
			zzEmitU(tag+v.names[i], v.nums[i])
		}
	}
}

func zzSnapUser(v *zzView, pre string, up UserProperties) {
	v.n(pre+"UserProperties.len", uint64(len(up)))
	for i := range up {
		v.s(pre+"UserProperties["+zzItoa(i)+"].key", []byte(up[i][0]))
		v.s(pre+"UserProperties["+zzItoa(i)+"].value", []byte(up[i][1]))
	}
}

func zzSnapPublish(v *zzView, pre string, p *Publish) {
	v.b(pre+"Duplicate", p.Duplicate())
	v.n(pre+"QoS", uint64(p.QoS()))
	v.b(pre+"Retain", p.Retain())
	v.s(pre+"TopicName", []byte(p.TopicName()))
	v.n(pre+"PacketID", uint64(p.PacketID()))
	v.b(pre+"PayloadFormat", p.PayloadFormat())
	v.n(pre+"MessageExpiryInterval", uint64(p.MessageExpiryInterval()))
	v.n(pre+"TopicAlias", uint64(p.TopicAlias()))
	v.s(pre+"ResponseTopic", []byte(p.ResponseTopic()))
	v.s(pre+"CorrelationData", p.CorrelationData())
	v.s(pre+"ContentType", []byte(p.ContentType()))
	v.s(pre+"Payload", p.Payload())
	ids := p.SubscriptionIDs()
	v.n(pre+"SubscriptionIDs.len", uint64(len(ids)))
	for i := range ids {
		v.n(pre+"SubscriptionIDs["+zzItoa(i)+"]", uint64(ids[i]))
	}
	zzSnapUser(v, pre, p.UserProperties)
}

// zzSnap observes p through its public accessors.
func zzSnap(p ControlPacket) *zzView {
	v := &zzView{}
	switch p := p.(type) {
	case *Connect:
		v.n("type", 1)
		v.s("ProtocolName", []byte(p.ProtocolName()))
		v.n("ProtocolVersion", uint64(p.ProtocolVersion()))
		v.b("CleanStart", p.CleanStart())
		v.n("KeepAlive", uint64(p.KeepAlive()))
		v.s("ClientID", []byte(p.ClientID()))
		v.n("SessionExpiryInterval", uint64(p.SessionExpiryInterval()))
		v.s("AuthMethod", []byte(p.AuthMethod()))
		v.s("AuthData", p.AuthData())
		v.b("RequestProblemInfo", p.RequestProblemInfo())
		v.b("RequestResponseInfo", p.RequestResponseInfo())
		v.n("ReceiveMax", uint64(p.ReceiveMax()))
		v.n("TopicAliasMax", uint64(p.TopicAliasMax()))
		v.n("MaxPacketSize", uint64(p.MaxPacketSize()))
		v.b("HasFlag(Reserved)", p.HasFlag(0x01))
		v.b("HasFlag(CleanStart)", p.HasFlag(0x02))
		v.b("HasFlag(WillFlag)", p.HasFlag(0x04))
		v.b("HasFlag(WillQoS1)", p.HasFlag(0x08))
		v.b("HasFlag(WillQoS2)", p.HasFlag(0x10))
		v.b("HasFlag(WillRetain)", p.HasFlag(0x20))
		v.b("HasFlag(PasswordFlag)", p.HasFlag(0x40))
		v.b("HasFlag(UsernameFlag)", p.HasFlag(0x80))
		v.s("Username", []byte(p.Username()))
		v.s("Password", p.Password())
		zzSnapUser(v, "", p.UserProperties)
		w := p.Will()
		v.b("Will()!=nil", w != nil)
		if w != nil {
			v.n("WillDelayInterval", uint64(p.WillDelayInterval()))
			zzSnapPublish(v, "Will.", w)
		}
	case *ConnAck:
		v.n("type", 2)
		v.b("SessionPresent", p.SessionPresent())
		v.b("HasFlag(1)", p.HasFlag(1))
		v.n("ReasonCode", uint64(p.ReasonCode()))
		v.n("SessionExpiryInterval", uint64(p.SessionExpiryInterval()))
		v.s("AssignedClientID", []byte(p.AssignedClientID()))
		v.n("ServerKeepAlive", uint64(p.ServerKeepAlive()))
		v.s("AuthMethod", []byte(p.AuthMethod()))
		v.s("AuthData", p.AuthData())
		v.s("ResponseInformation", []byte(p.ResponseInformation()))
		v.s("ServerReference", []byte(p.ServerReference()))
		v.s("ReasonString", []byte(p.ReasonString()))
		v.n("ReceiveMax", uint64(p.ReceiveMax()))
		v.n("TopicAliasMax", uint64(p.TopicAliasMax()))
		v.n("MaxQoS", uint64(p.MaxQoS()))
		v.b("RetainAvailable", p.RetainAvailable())
		v.n("MaxPacketSize", uint64(p.MaxPacketSize()))
		v.b("WildcardSubAvailable", p.WildcardSubAvailable())
		v.b("SubIdentifiersAvailable", p.SubIdentifiersAvailable())
		v.b("SharedSubAvailable", p.SharedSubAvailable())
		zzSnapUser(v, "", p.UserProperties)
	case *Publish:
		v.n("type", 3)
		zzSnapPublish(v, "", p)
	case *PubAck:
		v.n("type", 4)
		v.n("PacketID", uint64(p.PacketID()))
		v.n("ReasonCode", uint64(p.ReasonCode()))
		v.s("ReasonString", []byte(p.ReasonString()))
		zzSnapUser(v, "", p.UserProperties)
	case *PubRec:
		v.n("type", 5)
		v.n("PacketID", uint64(p.PacketID()))
		v.n("ReasonCode", uint64(p.ReasonCode()))
		v.s("ReasonString", []byte(p.ReasonString()))
		zzSnapUser(v, "", p.UserProperties)
	case *PubRel:
		v.n("type", 6)
		v.n("PacketID", uint64(p.PacketID()))
		v.n("ReasonCode", uint64(p.ReasonCode()))
		v.s("ReasonString", []byte(p.ReasonString()))
		zzSnapUser(v, "", p.UserProperties)
	case *PubComp:
		v.n("type", 7)
		v.n("PacketID", uint64(p.PacketID()))
		v.n("ReasonCode", uint64(p.ReasonCode()))
		v.s("ReasonString", []byte(p.ReasonString()))
		zzSnapUser(v, "", p.UserProperties)
	case *Subscribe:
		v.n("type", 8)
		v.n("PacketID", uint64(p.PacketID()))
		v.n("SubscriptionID", uint64(p.SubscriptionID()))
		fs := p.Filters()
		v.n("Filters.len", uint64(len(fs)))
		for i := range fs {
			v.s("Filters["+zzItoa(i)+"].Filter", []byte(fs[i].Filter()))
			v.n("Filters["+zzItoa(i)+"].Options", uint64(fs[i].Options()))
		}
		zzSnapUser(v, "", p.UserProperties)
	case *SubAck:
		v.n("type", 9)
		v.n("PacketID", uint64(p.PacketID()))
		v.s("ReasonString", []byte(p.ReasonString()))
		v.s("ReasonCodes", p.ReasonCodes())
		zzSnapUser(v, "", p.UserProperties)
	case *Unsubscribe:
		v.n("type", 10)
		v.n("PacketID", uint64(p.PacketID()))
		fs := p.Filters()
		v.n("Filters.len", uint64(len(fs)))
		for i := range fs {
			v.s("Filters["+zzItoa(i)+"]", []byte(fs[i]))
		}
		zzSnapUser(v, "", p.UserProperties)
	case *UnsubAck:
		v.n("type", 11)
		v.n("PacketID", uint64(p.PacketID()))
		v.s("ReasonString", []byte(p.ReasonString()))
		v.s("ReasonCodes", p.ReasonCodes())
		zzSnapUser(v, "", p.UserProperties)
	case *PingReq:
		v.n("type", 12)
	case *PingResp:
		v.n("type", 13)
	case *Disconnect:
		v.n("type", 14)
		v.n("ReasonCode", uint64(p.ReasonCode()))
		v.n("SessionExpiryInterval", uint64(p.SessionExpiryInterval()))
		v.s("ServerReference", []byte(p.ServerReference()))
		v.s("ReasonString", []byte(p.ReasonString()))
		zzSnapUser(v, "", p.UserProperties)
	case *Auth:
		v.n("type", 15)
		v.n("ReasonCode", uint64(p.ReasonCode()))
		v.s("AuthMethod", []byte(p.AuthMethod()))
		v.s("AuthData", p.AuthData())
		v.s("ReasonString", []byte(p.ReasonString()))
		zzSnapUser(v, "", p.UserProperties)
	case *Undefined:
		v.n("type", 0)
		v.s("Data", p.Data())
	default:
		v.n("type", 99)
	}
	return v
}

func zzExpUser(v *zzView, pre string, ps []zzProp) {
	n := 0
	for i := range ps {
		if ps[i].id == 0x26 {
			n++
		}
	}
	v.n(pre+"UserProperties.len", uint64(n))
	k := 0
	for i := range ps {
		if ps[i].id == 0x26 {
			v.s(pre+"UserProperties["+zzItoa(k)+"].key", ps[i].s)
			v.s(pre+"UserProperties["+zzItoa(k)+"].value", ps[i].v)
			k++
		}
	}
}

// zzExpPublish: expected observations of a PUBLISH (or will) with the given
// header flags, topic, packet identifier, properties and payload.
func zzExpPublish(v *zzView, pre string, hflags byte, topic []byte, pid uint16, ps []zzProp, payload []byte) {
	v.n(pre+"Duplicate", uint64(hflags>>3)&1)
	v.n(pre+"QoS", uint64(hflags>>1)&3)
	v.n(pre+"Retain", uint64(hflags)&1)
	v.s(pre+"TopicName", topic)
	v.n(pre+"PacketID", uint64(pid))
	v.n(pre+"PayloadFormat", zzPU(ps, 0x01))
	v.n(pre+"MessageExpiryInterval", zzPU(ps, 0x02))
	v.n(pre+"TopicAlias", zzPU(ps, 0x23))
	v.s(pre+"ResponseTopic", zzPS(ps, 0x08))
	v.s(pre+"CorrelationData", zzPS(ps, 0x09))
	v.s(pre+"ContentType", zzPS(ps, 0x03))
	v.s(pre+"Payload", payload)
	n := 0
	for i := range ps {
		if ps[i].id == 0x0b {
			n++
		}
	}
	v.n(pre+"SubscriptionIDs.len", uint64(n))
	k := 0
	for i := range ps {
		if ps[i].id == 0x0b {
			v.n(pre+"SubscriptionIDs["+zzItoa(k)+"]", uint64(ps[i].u))
			k++
		}
	}
	zzExpUser(v, pre, ps)
}

// zzExpect: what the accessors of the library packet for a must return.
func zzExpect(a *zzAbs) *zzView {
	v := &zzView{}
	v.n("type", uint64(a.typ))
	ps := a.props
	switch a.typ {
	case 1:
		v.s("ProtocolName", a.protoName)
		v.n("ProtocolVersion", uint64(a.protoVer))
		v.n("CleanStart", uint64(a.connFlags>>1)&1)
		v.n("KeepAlive", uint64(a.keepAlive))
		v.s("ClientID", a.clientID)
		v.n("SessionExpiryInterval", zzPU(ps, 0x11))
		v.s("AuthMethod", zzPS(ps, 0x15))
		v.s("AuthData", zzPS(ps, 0x16))
		v.n("RequestProblemInfo", zzPU(ps, 0x17))
		v.n("RequestResponseInfo", zzPU(ps, 0x19))
		v.n("ReceiveMax", zzPU(ps, 0x21))
		v.n("TopicAliasMax", zzPU(ps, 0x22))
		v.n("MaxPacketSize", zzPU(ps, 0x27))
		for i, nm := range []string{"Reserved", "CleanStart", "WillFlag", "WillQoS1", "WillQoS2", "WillRetain", "PasswordFlag", "UsernameFlag"} {
			v.n("HasFlag("+nm+")", uint64(a.connFlags>>uint(i))&1)
		}
		v.s("Username", a.username)
		v.s("Password", a.password)
		zzExpUser(v, "", ps)
		v.b("Will()!=nil", a.hasWill)
		if a.hasWill {
			v.n("WillDelayInterval", zzPU(a.willProps, 0x18))
			wf := (a.connFlags>>3)&3<<1 | (a.connFlags>>5)&1 | byte(zzB2U(a.willDup))<<3
			zzExpPublish(v, "Will.", wf, a.willTopic, 0, a.willProps, a.willPayload)
		}
	case 2:
		v.n("SessionPresent", uint64(a.ackFlags)&1)
		v.n("HasFlag(1)", uint64(a.ackFlags)&1)
		v.n("ReasonCode", uint64(a.reason))
		v.n("SessionExpiryInterval", zzPU(ps, 0x11))
		v.s("AssignedClientID", zzPS(ps, 0x12))
		v.n("ServerKeepAlive", zzPU(ps, 0x13))
		v.s("AuthMethod", zzPS(ps, 0x15))
		v.s("AuthData", zzPS(ps, 0x16))
		v.s("ResponseInformation", zzPS(ps, 0x1a))
		v.s("ServerReference", zzPS(ps, 0x1c))
		v.s("ReasonString", zzPS(ps, 0x1f))
		v.n("ReceiveMax", zzPU(ps, 0x21))
		v.n("TopicAliasMax", zzPU(ps, 0x22))
		v.n("MaxQoS", zzPU(ps, 0x24))
		v.n("RetainAvailable", zzPU(ps, 0x25))
		v.n("MaxPacketSize", zzPU(ps, 0x27))
		v.n("WildcardSubAvailable", zzPU(ps, 0x28))
		v.n("SubIdentifiersAvailable", zzPU(ps, 0x29))
		v.n("SharedSubAvailable", zzPU(ps, 0x2a))
		zzExpUser(v, "", ps)
	case 3:
		zzExpPublish(v, "", a.hflags, a.topic, a.pid, ps, a.payload)
	case 4, 5, 6, 7:
		v.n("PacketID", uint64(a.pid))
		v.n("ReasonCode", uint64(a.reason))
		v.s("ReasonString", zzPS(ps, 0x1f))
		zzExpUser(v, "", ps)
	case 8:
		v.n("PacketID", uint64(a.pid))
		if zzPHas(ps, 0x0b) {
			v.n("SubscriptionID", zzPU(ps, 0x0b))
		} else {
			v.n("SubscriptionID", ^uint64(0)) // -1: never set
		}
		v.n("Filters.len", uint64(len(a.filters)))
		for i := range a.filters {
			v.s("Filters["+zzItoa(i)+"].Filter", a.filters[i])
			v.n("Filters["+zzItoa(i)+"].Options", uint64(a.opts[i]))
		}
		zzExpUser(v, "", ps)
	case 9, 11:
		v.n("PacketID", uint64(a.pid))
		v.s("ReasonString", zzPS(ps, 0x1f))
		v.s("ReasonCodes", a.codes)
		zzExpUser(v, "", ps)
	case 10:
		v.n("PacketID", uint64(a.pid))
		v.n("Filters.len", uint64(len(a.filters)))
		for i := range a.filters {
			v.s("Filters["+zzItoa(i)+"]", a.filters[i])
		}
		zzExpUser(v, "", ps)
	case 14:
		v.n("ReasonCode", uint64(a.reason))
		v.n("SessionExpiryInterval", zzPU(ps, 0x11))
		v.s("ServerReference", zzPS(ps, 0x1c))
		v.s("ReasonString", zzPS(ps, 0x1f))
		zzExpUser(v, "", ps)
	case 15:
		v.n("ReasonCode", uint64(a.reason))
		v.s("AuthMethod", zzPS(ps, 0x15))
		v.s("AuthData", zzPS(ps, 0x16))
		v.s("ReasonString", zzPS(ps, 0x1f))
		zzExpUser(v, "", ps)
	}
	return v
}
