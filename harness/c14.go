//go:build verif

package mq

// C14 — decoded packets own their memory and packets do not interfere.

// zzScribble overwrites every byte of b with a fresh symbolic byte.
func zzScribble(b []byte, name string) {
	f := zzBytes(name, len(b))
	copy(b, f)
}

// ZZ_C14_alias_um: UnmarshalBinary of type a[0] on a[1] arbitrary bytes, then
// the input slice is overwritten; no accessor may change.
func ZZ_C14_alias_um(a []int) {
	body := zzBytes("b", a[1])
	q := zzNew(a[0])
	err := q.UnmarshalBinary(body)
	if err != nil {
		return
	}
	zzReach("alias")
	s := zzSnap(q)
	zzScribble(body, "z")
	zzViewEq(zzSnap(q), s, "overwriting the input of UnmarshalBinary changes the packet")
}

// ZZ_C14_alias_s: the same on the body of a valid frame of shape a.
func ZZ_C14_alias_s(a []int) {
	sh := zzShapeOf(a)
	if sh.typ == 3 {
		sh.qos = 0 // UnmarshalBinary on a zero Publish expects a QoS 0 body
	}
	abs := zzGen(sh)
	body := zzRefBody(abs)
	q := zzNew(abs.typ)
	err := q.UnmarshalBinary(body)
	if err != nil {
		return
	}
	zzReach("alias")
	s := zzSnap(q)
	zzScribble(body, "z")
	zzViewEq(zzSnap(q), s, "overwriting the input of UnmarshalBinary changes the packet")
}

// ZZ_C14_alias_rp: ReadPacket from a stream whose backing array is then
// overwritten (a reused read buffer). a[0] = first byte's type nibble,
// a[1] = body length.
func ZZ_C14_alias_rp(a []int) {
	n := a[1]
	f := append([]byte{byte(a[0]) << 4, byte(n)}, zzBytes("b", n)...)
	q, err := ReadPacket(&zzContig{b: f})
	if err != nil {
		return
	}
	zzReach("alias")
	s := zzSnap(q)
	zzScribble(f, "z")
	zzViewEq(zzSnap(q), s, "reusing the read buffer changes the packet")
}

// ZZ_C14_interf: a[0] = which setter, a[1:] = shape. Decode A -> q1, decode B -> q2 (both of the given shape,
// independent values); every setter on q1, WriteTo, String, Dump of q1 must
// leave q2 unchanged and write no package-level state; decoding A again gives
// the same packet as the first time.
func ZZ_C14_interf(a []int) {
	only := a[0] // setter to apply (-1: all of them, one after the other)
	a = a[1:]
	sh := zzShapeOf(a)
	absA := zzGen2(sh, "A.")
	absB := zzGen2(sh, "B.")
	fA, fB := zzRefEncode(absA), zzRefEncode(absB)
	q1, e1 := ReadPacket(&zzContig{b: fA})
	q2, e2 := ReadPacket(&zzContig{b: fB})
	if e1 != nil || e2 != nil {
		return
	}
	zzReach("interf")
	sA := zzSnap(q1)
	s2 := zzSnap(q2)
	model := *absA
	for k := 0; k < zzSetterCount(sh.typ); k++ {
		if only < 0 || only == k {
			zzApplySetter(q1, &model, k, 1, "m"+zzItoa(k)+".")
		}
	}
	var w zzSink
	q1.WriteTo(&w)
	zzReadOnlyOps(q1)
	zzViewEq(zzSnap(q2), s2, "operating on one packet changes another")
	zzAssert(zzGlobalWrites() == 0, "monitor: package-level state is written while decoding, encoding or modifying packets")
	q3, e3 := ReadPacket(&zzContig{b: fA})
	zzAssert(e3 == nil, "the same frame is rejected the second time")
	if e3 == nil {
		zzViewEq(zzSnap(q3), sA, "a frame decodes differently depending on what was processed before")
	}
}
