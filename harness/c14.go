//go:build verif

package mq

// C14 — decoded packets own their memory and packets do not interfere.

// zzScribble overwrites every byte of b with a fresh symbolic byte.
func zzScribble(b []byte, name string) {
	f := zzBytes(name, len(b))
	copy(b, f)
}

// ZZ_C14_alias_um: UnmarshalBinary of type a[0] on a[1] arbitrary bytes, then
// the input slice is overwritten; no accessor may change.
func ZZ_C14_alias_um(a []int) {
	body := zzBytes("b", a[1])
	q := zzNew(a[0])
	err := q.UnmarshalBinary(body)
	if err != nil {
		return
	}
	zzReach("alias")
	s := zzSnap(q)
	zzScribble(body, "z")
	zzViewEq(zzSnap(q), s, "overwriting the input of UnmarshalBinary changes the packet")
}

// ZZ_C14_alias_s: the same on the body of a valid frame of shape a.
func ZZ_C14_alias_s(a []int) {
	sh := zzShapeOf(a)
	if sh.typ == 3 {
		sh.qos = 0 // UnmarshalBinary on a zero Publish expects a QoS 0 body
	}
	abs := zzGen(sh)
	body := zzRefBody(abs)
	q := zzNew(abs.typ)
	err := q.UnmarshalBinary(body)
	if err != nil {
		return
	}
	zzReach("alias")
	s := zzSnap(q)
	zzScribble(body, "z")
	zzViewEq(zzSnap(q), s, "overwriting the input of UnmarshalBinary changes the packet")
}

// ZZ_C14_alias_rp: ReadPacket from a stream whose backing array is then
// overwritten (a reused read buffer). a[0] = first byte's type nibble,
// a[1] = body length.
func ZZ_C14_alias_rp(a []int) {
	n := a[1]
	f := append([]byte{byte(a[0]) << 4, byte(n)}, zzBytes("b", n)...)
	q, err := ReadPacket(&zzContig{b: f})
	if err != nil {
		return
	}
	zzReach("alias")
	s := zzSnap(q)
	zzScribble(f, "z")
	zzViewEq(zzSnap(q), s, "reusing the read buffer changes the packet")
}

// ZZ_C14_interf: a[0] = which setter, a[1:] = shape. Decode A -> q1, decode B -> q2 (both of the given shape,
// independent values); every setter on q1, WriteTo, String, Dump of q1 must
// leave q2 unchanged and write no package-level state; decoding A again gives
// the same packet as the first time.
func ZZ_C14_interf(a []int) {
	only := a[0] // setter to apply (-1: all of them, one after the other)
	a = a[1:]
	sh := zzShapeOf(a)
	// the bystander is concrete; the packet that is operated on has symbolic
	// values only for small shapes (every boolean property doubles the paths
	// of each of the two decodes)
	shB := sh
	shB.nz = 3
	bits := 0
	for m := sh.mask; m != 0; m &= m - 1 {
		bits++
	}
	if bits > 2 {
		sh.nz = 3
	}
	absA := zzGen2(sh, "A.")
	absB := zzGen2(shB, "B.")
	fA, fB := zzRefEncode(absA), zzRefEncode(absB)
	q1, e1 := ReadPacket(&zzContig{b: fA})
	q2, e2 := ReadPacket(&zzContig{b: fB})
	if e1 != nil || e2 != nil {
		return
	}
	zzReach("interf")
	sA := zzSnap(q1)
	s2 := zzSnap(q2)
	model := *absA
	for k := 0; k < zzSetterCount(sh.typ); k++ {
		if only < 0 || only == k {
			zzApplySetter(q1, &model, k, 1, "m"+zzItoa(k)+".")
		}
	}
	var w zzSink
	q1.WriteTo(&w)
	zzReadOnlyOps(q1)
	zzViewEq(zzSnap(q2), s2, "operating on one packet changes another")
	zzAssert(zzGlobalWrites() == 0, "monitor: package-level state is written while decoding, encoding or modifying packets")
	q3, e3 := ReadPacket(&zzContig{b: fA})
	zzAssert(e3 == nil, "the same frame is rejected the second time")
	if e3 == nil {
		zzViewEq(zzSnap(q3), sA, "a frame decodes differently depending on what was processed before")
	}
}

// ZZ_C14_reuse: decoding into a packet that already holds data must not
// write through the memory it held before. a[0] selects the scenario, a[1] =
// length of the string/binary fields involved.
//
//	0: NewConnect() then UnmarshalBinary with an arbitrary protocol name of
//	   up to four bytes: later NewConnect() packets still say "MQTT"
//	1: a binary field of p1 (correlation data / auth data / password /
//	   payload) is handed to p2 through its setter; p2.UnmarshalBinary must
//	   leave p1 unchanged
//	2: a CONNECT is decoded, its will is kept; decoding another body into the
//	   same Connect must leave the will obtained earlier unchanged
func ZZ_C14_reuse(a []int) {
	l := a[1]
	switch a[0] {
	case 0:
		var e zzEnc
		e.str(zzBytes("pn", l))
		e.u8(5)
		e.u8(0)
		e.u16(zzU16("ka"))
		e.u8(0)
		e.str(zzBytes("cid", 1))
		q := NewConnect()
		err := q.UnmarshalBinary(e.b)
		zzReach("reuse")
		zzEmitU("err", zzB2U(err != nil))
		fresh := NewConnect()
		zzAssert(zzBytesEq([]byte(fresh.ProtocolName()), []byte("MQTT")), "decoding into a NewConnect() packet changes the protocol name of later NewConnect() packets")
		zzAssert(zzGlobalWrites() == 0, "monitor: package-level state is written while decoding")
	case 1:
		p1 := NewPublish()
		p1.SetTopicName("t")
		p1.SetCorrelationData(zzBytes("c1", l))
		p1.SetPayload(zzBytes("pl1", l))
		s1 := zzSnap(p1)
		p2 := NewPublish()
		p2.SetCorrelationData(p1.CorrelationData())
		p2.SetPayload(p1.Payload())
		abs := zzGen2(zzShape{typ: 3, slen: l, mask: 1 << 4, nz: 2}, "B.")
		err := p2.UnmarshalBinary(zzRefBody(abs))
		zzReach("reuse")
		zzEmitU("err", zzB2U(err != nil))
		zzViewEq(zzSnap(p1), s1, "decoding into a packet changes another packet that shared a slice with it")
		c1 := NewConnect()
		c1.SetAuthData(zzBytes("ad", l))
		c1.SetPassword(zzBytes("pw", l))
		sc := zzSnap(c1)
		c2 := NewConnect()
		c2.SetAuthData(c1.AuthData())
		c2.SetPassword(c1.Password())
		absC := zzGen2(zzShape{typ: 1, slen: l, mask: 1 << 2, cred: 2, nz: 2}, "C.")
		_ = c2.UnmarshalBinary(zzRefBody(absC))
		zzViewEq(zzSnap(c1), sc, "decoding into a packet changes another packet that shared a slice with it")
	case 2:
		absA := zzGen2(zzShape{typ: 1, slen: l, will: 1 | 63<<1, nUser: 1, nz: 2}, "A.")
		absB := zzGen2(zzShape{typ: 1, slen: l, will: 1 | 63<<1, nUser: 1, nz: 2}, "B.")
		q := &Connect{}
		if q.UnmarshalBinary(zzRefBody(absA)) != nil {
			return
		}
		w := q.Will()
		if w == nil {
			return
		}
		sw := zzSnap(w)
		err := q.UnmarshalBinary(zzRefBody(absB))
		zzReach("reuse")
		zzEmitU("err", zzB2U(err != nil))
		zzViewEq(zzSnap(w), sw, "decoding again into a Connect changes the will message obtained earlier")
	}
}

// ZZ_C14_after: a PUBLISH (with subscription identifiers and user property)
// is decoded and snapshotted; then a[1] arbitrary bytes are decoded as packet
// type a[0]; the PUBLISH must be unchanged whatever those bytes are.
func ZZ_C14_after(a []int) {
	abs := zzGen2(zzShape{typ: 3, slen: 1, nList: 1, nUser: 1, qos: 1, nz: 2}, "P.")
	q1, err := ReadPacket(&zzContig{b: zzRefEncode(abs)})
	if err != nil {
		return
	}
	s1 := zzSnap(q1)
	p := zzNew(a[0])
	e2 := p.UnmarshalBinary(zzBytes("b", a[1]))
	zzReach("after")
	zzEmitU("err", zzB2U(e2 != nil))
	zzViewEq(zzSnap(q1), s1, "decoding a later frame changes a packet decoded earlier")
	zzAssert(zzGlobalWrites() == 0, "monitor: package-level state is written while decoding")
}

// ZZ_C14_kept: a valid frame of shape a[1:] is read from a stream and the
// packet is kept; the stream continues with a second frame whose first byte
// and a[0] body bytes are arbitrary; reading it must leave the first packet
// unchanged (a reused or pooled read buffer would show here).
func ZZ_C14_kept(a []int) {
	n := a[0]
	sh := zzShapeOf(a[1:])
	sh.nz = 3 // concrete first frame: what matters is whether the second read touches it
	abs := zzGen2(sh, "K.")
	s := zzRefEncode(abs)
	s = append(s, zzU8("b0"), byte(n))
	s = append(s, zzBytes("b", n)...)
	r := &zzContig{b: s}
	q1, err := ReadPacket(r)
	if err != nil {
		return
	}
	s1 := zzSnap(q1)
	var w1 zzSink
	q1.WriteTo(&w1)
	_, e2 := ReadPacket(r)
	zzReach("kept")
	zzEmitU("err", zzB2U(e2 != nil))
	zzViewEq(zzSnap(q1), s1, "reading the next frame changes the packet returned before")
	var w2 zzSink
	q1.WriteTo(&w2)
	if len(w1.b) == len(w2.b) {
		zzAssert(zzBytesEq(w1.b, w2.b), "reading the next frame changes the encoding of the packet returned before")
	} else {
		zzAssert(false, "reading the next frame changes the encoding of the packet returned before (length)")
	}
}
