//go:build verif

package mq

// C12 — setters and accessors obey last-write-wins and keep derived flags in
// step. zzApplySetter performs one public setter / adder call on the library
// packet and the corresponding update on the record-of-fields model (the
// abstract packet); zzExpect turns the model into expected accessor values.

func zzSetPU(ps *[]zzProp, id byte, u uint32) {
	for i := range *ps {
		if (*ps)[i].id == id {
			(*ps)[i].u = u
			return
		}
	}
	*ps = append(*ps, zzProp{id: id, u: u})
}

func zzSetPS(ps *[]zzProp, id byte, s []byte) {
	for i := range *ps {
		if (*ps)[i].id == id {
			(*ps)[i].s = s
			return
		}
	}
	*ps = append(*ps, zzProp{id: id, s: s})
}

type zzArg struct {
	pre string
	l   int
	dom bool
}

func (g *zzArg) str(name string) []byte { return g.strN(name, g.l) }

// long values: 4 symbolic bytes at each end, concrete filler between
func (g *zzArg) long(name string, n int) []byte {
	b := make([]byte, n)
	for i := range b {
		b[i] = byte('a' + i%23)
	}
	copy(b, zzBytes(g.pre+name+".head", 4))
	copy(b[n-4:], zzBytes(g.pre+name+".tail", 4))
	return b
}
func (g *zzArg) strN(name string, n int) []byte {
	if n > 24 {
		b := g.long(name, n)
		for _, i := range []int{0, 1, 2, 3, n - 4, n - 3, n - 2, n - 1} {
			g.dom = zzAnd(g.dom, zzAnd(b[i] >= 0x20, b[i] <= 0x7e))
		}
		return b
	}
	b := zzBytes(g.pre+name, n)
	for i := range b {
		g.dom = zzAnd(g.dom, zzAnd(b[i] >= 0x20, b[i] <= 0x7e))
	}
	return b
}
func (g *zzArg) bin(name string) []byte {
	if g.l > 24 {
		return g.long(name, g.l)
	}
	return zzBytes(g.pre+name, g.l)
}
func (g *zzArg) u8() uint8     { return zzU8(g.pre + "u8") }
func (g *zzArg) u16() uint16   { return zzU16(g.pre + "u16") }
func (g *zzArg) u32() uint32   { return zzU32(g.pre + "u32") }
func (g *zzArg) boolean() bool { return zzBool(g.pre + "b") }

func (g *zzArg) user(up *UserProperties, ps *[]zzProp) {
	kl := g.l
	if kl < 1 {
		kl = 1
	}
	k, v := g.strN("uk", kl), g.str("uv")
	up.AddUserProp(string(k), string(v))
	*ps = append(*ps, zzProp{id: 0x26, s: k, v: v})
}

// zzSetterCount: number of setter cases per type (upper bound for jobs).
func zzSetterCount(typ int) int {
	switch typ {
	case 1:
		return 20
	case 2:
		return 19
	case 3:
		return 14
	case 4, 5, 6, 7:
		return 4
	case 8:
		return 4
	case 9, 11:
		return 4
	case 10:
		return 3
	case 14:
		return 5
	case 15:
		return 5
	}
	return 0
}

// zzApplySetter applies setter number k with symbolic arguments (strings of
// length l) to p and to the model a. Returns false if k is out of range.
func zzApplySetter(pk ControlPacket, a *zzAbs, k int, l int, pre string) bool {
	g := &zzArg{pre: pre, l: l, dom: true}
	ok := true
	switch p := pk.(type) {
	case *Connect:
		switch k {
		case 0:
			v := g.u16()
			p.SetKeepAlive(v)
			a.keepAlive = v
		case 1:
			v := g.boolean()
			p.SetCleanStart(v)
			a.connFlags = a.connFlags&^0x02 | byte(zzB2U(v))<<1
		case 2:
			v := g.str("s")
			p.SetClientID(string(v))
			a.clientID = v
		case 3:
			v := g.u32()
			p.SetSessionExpiryInterval(v)
			zzSetPU(&a.props, 0x11, v)
		case 4:
			v := g.u16()
			p.SetReceiveMax(v)
			zzSetPU(&a.props, 0x21, uint32(v))
		case 5:
			v := g.u32()
			p.SetMaxPacketSize(v)
			zzSetPU(&a.props, 0x27, v)
		case 6:
			v := g.u16()
			p.SetTopicAliasMax(v)
			zzSetPU(&a.props, 0x22, uint32(v))
		case 7:
			v := g.boolean()
			p.SetRequestResponseInfo(v)
			zzSetPU(&a.props, 0x19, uint32(zzB2U(v)))
		case 8:
			v := g.boolean()
			p.SetRequestProblemInfo(v)
			zzSetPU(&a.props, 0x17, uint32(zzB2U(v)))
		case 9:
			v := g.str("s")
			p.SetAuthMethod(string(v))
			zzSetPS(&a.props, 0x15, v)
		case 10:
			v := g.bin("s")
			p.SetAuthData(v)
			zzSetPS(&a.props, 0x16, v)
		case 11:
			v := g.str("s")
			p.SetUsername(string(v))
			a.username = v
			a.hasUser = len(v) > 0
			a.connFlags &^= 0x80
			if len(v) > 0 {
				a.connFlags |= 0x80
			}
		case 12:
			p.SetUsername("")
			a.username = nil
			a.hasUser = false
			a.connFlags &^= 0x80
		case 13:
			v := g.bin("s")
			p.SetPassword(v)
			a.password = v
			a.hasPass = len(v) > 0
			a.connFlags &^= 0x40
			if len(v) > 0 {
				a.connFlags |= 0x40
			}
		case 14:
			p.SetPassword(nil)
			a.password = nil
			a.hasPass = false
			a.connFlags &^= 0x40
		case 15:
			g.user(&p.UserProperties, &a.props)
		case 16:
			// a new will message with symbolic QoS, retain, topic, payload
			// and two properties
			wq := g.u8()
			g.dom = zzAnd(g.dom, wq <= 2)
			wr := g.boolean()
			topic := g.strN("wt", 1)
			pl := g.bin("wp")
			me := g.u32()
			ct := g.str("wc")
			w := NewPublish()
			w.SetQoS(wq)
			w.SetRetain(wr)
			wd := zzBool(g.pre + "d") // not on the wire of a CONNECT; must not leak into its flags
			w.SetDuplicate(wd)
			w.SetTopicName(string(topic))
			w.SetPayload(pl)
			w.SetMessageExpiryInterval(me)
			w.SetContentType(string(ct))
			p.SetWill(w)
			if zzBool(g.pre + "ra") {
				// the same message is changed and attached again: the second
				// SetWill wins, for the accessors and for the frame
				pl = g.bin("wr")
				w.SetPayload(pl)
				p.SetWill(w)
			}
			delay := zzPU(a.willProps, 0x18)
			a.hasWill = true
			a.willDup = wd
			a.willTopic, a.willPayload = topic, pl
			a.willProps = []zzProp{{id: 0x02, u: me}, {id: 0x03, s: ct}, {id: 0x18, u: uint32(delay)}}
			a.connFlags = a.connFlags&^0x3c | 0x04 | (wq&3)<<3 | byte(zzB2U(wr))<<5
		case 17:
			v := g.u8()
			p.SetProtocolVersion(v)
			a.protoVer = v
		case 18:
			v := g.str("s")
			p.SetProtocolName(string(v))
			a.protoName = v
		case 19:
			v := g.u32()
			p.SetWillDelayInterval(v)
			zzSetPU(&a.willProps, 0x18, v)
		default:
			ok = false
		}
	case *ConnAck:
		switch k {
		case 0:
			v := g.boolean()
			p.SetSessionPresent(v)
			a.ackFlags = a.ackFlags&^1 | byte(zzB2U(v))
		case 1:
			v := g.u8()
			p.SetReasonCode(ReasonCode(v))
			a.reason = v
		case 2:
			v := g.u32()
			p.SetSessionExpiryInterval(v)
			zzSetPU(&a.props, 0x11, v)
		case 3:
			v := g.str("s")
			p.SetAssignedClientID(string(v))
			zzSetPS(&a.props, 0x12, v)
		case 4:
			v := g.u16()
			p.SetServerKeepAlive(v)
			zzSetPU(&a.props, 0x13, uint32(v))
		case 5:
			v := g.str("s")
			p.SetAuthMethod(string(v))
			zzSetPS(&a.props, 0x15, v)
		case 6:
			v := g.bin("s")
			p.SetAuthData(v)
			zzSetPS(&a.props, 0x16, v)
		case 7:
			v := g.str("s")
			p.SetResponseInformation(string(v))
			zzSetPS(&a.props, 0x1a, v)
		case 8:
			v := g.str("s")
			p.SetServerReference(string(v))
			zzSetPS(&a.props, 0x1c, v)
		case 9:
			v := g.str("s")
			p.SetReasonString(string(v))
			zzSetPS(&a.props, 0x1f, v)
		case 10:
			v := g.u16()
			p.SetReceiveMax(v)
			zzSetPU(&a.props, 0x21, uint32(v))
		case 11:
			v := g.u16()
			p.SetTopicAliasMax(v)
			zzSetPU(&a.props, 0x22, uint32(v))
		case 12:
			v := g.u8()
			g.dom = zzAnd(g.dom, v <= 1)
			p.SetMaxQoS(v)
			zzSetPU(&a.props, 0x24, uint32(v))
		case 13:
			v := g.boolean()
			p.SetRetainAvailable(v)
			zzSetPU(&a.props, 0x25, uint32(zzB2U(v)))
		case 14:
			v := g.u32()
			p.SetMaxPacketSize(v)
			zzSetPU(&a.props, 0x27, v)
		case 15:
			v := g.boolean()
			p.SetWildcardSubAvailable(v)
			zzSetPU(&a.props, 0x28, uint32(zzB2U(v)))
		case 16:
			v := g.boolean()
			p.SetSubIdentifiersAvailable(v)
			zzSetPU(&a.props, 0x29, uint32(zzB2U(v)))
		case 17:
			v := g.boolean()
			p.SetSharedSubAvailable(v)
			zzSetPU(&a.props, 0x2a, uint32(zzB2U(v)))
		case 18:
			g.user(&p.UserProperties, &a.props)
		default:
			ok = false
		}
	case *Publish:
		switch k {
		case 0:
			v := g.boolean()
			p.SetDuplicate(v)
			a.hflags = a.hflags&^8 | byte(zzB2U(v))<<3
		case 1:
			v := g.u8()
			g.dom = zzAnd(g.dom, v <= 2)
			p.SetQoS(v)
			a.hflags = a.hflags&^6 | (v&3)<<1
		case 2:
			v := g.boolean()
			p.SetRetain(v)
			a.hflags = a.hflags&^1 | byte(zzB2U(v))
		case 3:
			v := g.str("s")
			p.SetTopicName(string(v))
			a.topic = v
		case 4:
			v := g.u16()
			p.SetPacketID(v)
			a.pid = v
		case 5:
			v := g.boolean()
			p.SetPayloadFormat(v)
			zzSetPU(&a.props, 0x01, uint32(zzB2U(v)))
		case 6:
			v := g.u32()
			p.SetMessageExpiryInterval(v)
			zzSetPU(&a.props, 0x02, v)
		case 7:
			v := g.u16()
			p.SetTopicAlias(v)
			zzSetPU(&a.props, 0x23, uint32(v))
		case 8:
			v := g.str("s")
			p.SetResponseTopic(string(v))
			zzSetPS(&a.props, 0x08, v)
		case 9:
			v := g.bin("s")
			p.SetCorrelationData(v)
			zzSetPS(&a.props, 0x09, v)
		case 10:
			v := g.str("s")
			p.SetContentType(string(v))
			zzSetPS(&a.props, 0x03, v)
		case 11:
			v := g.bin("s")
			p.SetPayload(v)
			a.payload = v
		case 12:
			v := g.u32()
			g.dom = zzAnd(g.dom, zzAnd(v >= 1, v <= 268435455))
			p.AddSubscriptionID(v)
			a.props = append(a.props, zzProp{id: 0x0b, u: v})
		case 13:
			g.user(&p.UserProperties, &a.props)
		default:
			ok = false
		}
	case *PubAck:
		ok = zzAckSetter(k, g, a, p.SetPacketID, p.SetReasonCode, p.SetReasonString, &p.UserProperties)
	case *PubRec:
		ok = zzAckSetter(k, g, a, p.SetPacketID, p.SetReasonCode, p.SetReasonString, &p.UserProperties)
	case *PubRel:
		ok = zzAckSetter(k, g, a, p.SetPacketID, p.SetReasonCode, p.SetReasonString, &p.UserProperties)
	case *PubComp:
		ok = zzAckSetter(k, g, a, p.SetPacketID, p.SetReasonCode, p.SetReasonString, &p.UserProperties)
	case *Subscribe:
		switch k {
		case 0:
			v := g.u16()
			p.SetPacketID(v)
			a.pid = v
		case 1:
			v := g.u32()
			g.dom = zzAnd(g.dom, zzAnd(v >= 1, v <= 268435455))
			p.SetSubscriptionID(int(v))
			zzSetPU(&a.props, 0x0b, v)
		case 2:
			fl := g.l
			if fl < 1 {
				fl = 1
			}
			f := g.strN("f", fl)
			o := g.u8()
			p.AddFilters(NewTopicFilter(string(f), Opt(o)))
			a.filters = append(a.filters, f)
			a.opts = append(a.opts, o)
		case 3:
			g.user(&p.UserProperties, &a.props)
		default:
			ok = false
		}
	case *SubAck:
		switch k {
		case 0:
			v := g.u16()
			p.SetPacketID(v)
			a.pid = v
		case 1:
			v := g.str("s")
			p.SetReasonString(string(v))
			zzSetPS(&a.props, 0x1f, v)
		case 2:
			v := g.u8()
			p.AddReasonCode(ReasonCode(v))
			a.codes = append(a.codes, v)
		case 3:
			g.user(&p.UserProperties, &a.props)
		default:
			ok = false
		}
	case *UnsubAck:
		switch k {
		case 0:
			v := g.u16()
			p.SetPacketID(v)
			a.pid = v
		case 1:
			v := g.str("s")
			p.SetReasonString(string(v))
			zzSetPS(&a.props, 0x1f, v)
		case 2:
			v := g.u8()
			p.AddReasonCode(ReasonCode(v))
			a.codes = append(a.codes, v)
		case 3:
			g.user(&p.UserProperties, &a.props)
		default:
			ok = false
		}
	case *Unsubscribe:
		switch k {
		case 0:
			v := g.u16()
			p.SetPacketID(v)
			a.pid = v
		case 1:
			fl := g.l
			if fl < 1 {
				fl = 1
			}
			f := g.strN("f", fl)
			p.AddFilter(string(f))
			a.filters = append(a.filters, f)
		case 2:
			g.user(&p.UserProperties, &a.props)
		default:
			ok = false
		}
	case *Disconnect:
		switch k {
		case 0:
			v := g.u8()
			p.SetReasonCode(ReasonCode(v))
			a.reason = v
		case 1:
			g.user(&p.UserProperties, &a.props)
		case 2:
			v := g.u32()
			p.SetSessionExpiryInterval(v)
			zzSetPU(&a.props, 0x11, v)
		case 3:
			v := g.str("s")
			p.SetServerReference(string(v))
			zzSetPS(&a.props, 0x1c, v)
		case 4:
			v := g.str("s")
			p.SetReasonString(string(v))
			zzSetPS(&a.props, 0x1f, v)
		default:
			ok = false
		}
	case *Auth:
		switch k {
		case 0:
			v := g.u8()
			p.SetReasonCode(ReasonCode(v))
			a.reason = v
		case 1:
			v := g.str("s")
			p.SetAuthMethod(string(v))
			zzSetPS(&a.props, 0x15, v)
		case 2:
			v := g.bin("s")
			p.SetAuthData(v)
			zzSetPS(&a.props, 0x16, v)
		case 3:
			v := g.str("s")
			p.SetReasonString(string(v))
			zzSetPS(&a.props, 0x1f, v)
		case 4:
			g.user(&p.UserProperties, &a.props)
		default:
			ok = false
		}
	default:
		ok = false
	}
	zzAssume(g.dom)
	return ok
}

func zzAckSetter(k int, g *zzArg, a *zzAbs, setID func(uint16), setRC func(ReasonCode), setRS func(string), up *UserProperties) bool {
	switch k {
	case 0:
		v := g.u16()
		setID(v)
		a.pid = v
	case 1:
		v := g.u8()
		setRC(ReasonCode(v))
		a.reason = v
	case 2:
		v := g.str("s")
		setRS(string(v))
		zzSetPS(&a.props, 0x1f, v)
	case 3:
		g.user(up, &a.props)
	default:
		return false
	}
	return true
}

// zzFresh: a freshly constructed packet and its model.
func zzFresh(typ int) (ControlPacket, *zzAbs) {
	a := &zzAbs{typ: typ}
	switch typ {
	case 1:
		a.protoName = []byte("MQTT")
		a.protoVer = 5
		return NewConnect(), a
	case 2:
		return NewConnAck(), a
	case 3:
		return NewPublish(), a
	case 4:
		return NewPubAck(), a
	case 5:
		return NewPubRec(), a
	case 6:
		a.hflags = 2
		return NewPubRel(), a
	case 7:
		return NewPubComp(), a
	case 8:
		a.hflags = 2
		return NewSubscribe(), a
	case 9:
		return NewSubAck(), a
	case 10:
		a.hflags = 2
		return NewUnsubscribe(), a
	case 11:
		return NewUnsubAck(), a
	case 12:
		return NewPingReq(), a
	case 13:
		return NewPingResp(), a
	case 14:
		return NewDisconnect(), a
	case 15:
		return NewAuth(), a
	}
	return nil, a
}

// zzWireReflects: the frame WriteTo produces carries the model's state.
func zzWireReflects(p ControlPacket, a *zzAbs, what string) {
	var w zzSink
	_, err := p.WriteTo(&w)
	zzAssert(err == nil, what+": WriteTo reports an error")
	if err != nil || len(w.b) < 2 {
		return
	}
	_, vn, ok := zzVbParse(w.b[1:])
	if !ok {
		return
	}
	dec, verdict := zzRefDecode(w.b[0], w.b[1+vn:])
	if verdict != zzVALID && verdict != zzPROTOVAL {
		return // not a frame the specification can read: C02's subject
	}
	zzAssert(w.b[0]&0x0f == a.hflags, what+": header flags on the wire")
	exp := *a
	if a.typ == 3 && a.hflags&6 == 0 {
		exp.pid = 0 // QoS 0: no packet identifier on the wire
	}
	exp.willDup = false // the DUP bit of a will message is not on the wire
	if a.typ == 1 && !a.hasWill {
		exp.willProps = nil
	}
	zzViewEq(zzExpect(dec), zzExpect(&exp), what+": wire")
}

// ZZ_C12_step: a[0] = setter, a[1] = length of string arguments, a[2:] =
// shape of the packet the setter is applied to (built with symbolic values).
func ZZ_C12_step(a []int) {
	abs := zzGen(zzShapeOf(a[2:]))
	p := zzBuild(abs)
	zzViewEq(zzSnap(p), zzExpect(abs), "after construction")
	if !zzApplySetter(p, abs, a[0], a[1], "x.") {
		return
	}
	zzReach("step")
	zzViewEq(zzSnap(p), zzExpect(abs), "after setter "+zzItoa(a[0]))
	zzWireReflects(p, abs, "after setter "+zzItoa(a[0]))
}

// ZZ_C12_seq: a[0] = type, a[1] = string length, a[2:] = setter sequence
// applied to a fresh packet; compared with the model after every step.
func ZZ_C12_seq(a []int) {
	p, abs := zzFresh(a[0])
	zzViewEq(zzSnap(p), zzExpect(abs), "fresh")
	for i, k := range a[2:] {
		if !zzApplySetter(p, abs, k, a[1], "s"+zzItoa(i)+".") {
			return
		}
		zzViewEq(zzSnap(p), zzExpect(abs), "after step "+zzItoa(i)+" (setter "+zzItoa(k)+")")
		// encoding and rendering between the steps must not freeze anything
		var w zzSink
		p.WriteTo(&w)
		_ = p.String()
	}
	zzReach("seq")
	zzWireReflects(p, abs, "after the sequence")
	// the history of one packet does not leak into packets created later
	fresh, fabs := zzFresh(a[0])
	zzViewEq(zzSnap(fresh), zzExpect(fabs), "a packet constructed after the history")
	zzWireReflects(fresh, fabs, "a packet constructed after the history")
}

// ZZ_C12_filter: TopicFilter setters.
func ZZ_C12_filter(a []int) {
	g := &zzArg{pre: "f.", l: a[0], dom: true}
	f0, o0 := g.strN("a", 1), g.u8()
	f1 := g.str("b")
	o1 := zzU8("f.o1")
	zzAssume(g.dom)
	tf := NewTopicFilter(string(f0), Opt(o0))
	zzAssert(zzBytesEq([]byte(tf.Filter()), f0) && tf.Options() == Opt(o0), "NewTopicFilter")
	tf.SetFilter(string(f1))
	zzAssert(zzBytesEq([]byte(tf.Filter()), f1), "SetFilter")
	zzAssert(tf.Options() == Opt(o0), "SetFilter changed the options")
	tf.SetOptions(Opt(o1))
	zzAssert(tf.Options() == Opt(o1), "SetOptions")
	zzAssert(zzBytesEq([]byte(tf.Filter()), f1), "SetOptions changed the filter")
	zzReach("filter")
}
