//go:build verif

package mq

import (
	"runtime"
	"sync"
)

// Native demonstrations for C13: the read-only operations of ZZ_C13_ro /
// ZZ_C13_will run from 8 goroutines; the binary is built with -race and the
// driver looks for the race detector's report. The writer yields so that
// other goroutines run between the encoding and the consumption of a buffer.

type zzYieldSink struct{ n int }

func (w *zzYieldSink) Write(p []byte) (int, error) {
	runtime.Gosched()
	for _, c := range p {
		w.n += int(c)
	}
	return len(p), nil
}

func zzHammer(ps []ControlPacket) {
	var wg sync.WaitGroup
	start := make(chan struct{})
	for g := 0; g < 8; g++ {
		wg.Add(1)
		go func(g int) {
			defer wg.Done()
			<-start
			for round := 0; round < 50; round++ {
				for _, p := range ps {
					var w zzYieldSink
					p.WriteTo(&w)
					_ = p.String()
					var d zzRopeW
					Dump(&d, p)
					if wf, ok := p.(HasWellFormed); ok {
						_ = wf.WellFormed()
					}
					_ = zzSnap(p)
				}
			}
		}(g)
	}
	close(start)
	wg.Wait()
}

// ZZ_C13_race: same arguments as ZZ_C13_ro.
func ZZ_C13_race(a []int) {
	abs := zzGen(zzShapeOf(a[1:]))
	var p ControlPacket
	if a[0] == 0 {
		p = zzBuild(abs)
	} else {
		q, err := ReadPacket(&zzContig{b: zzRefEncode(abs)})
		if err != nil {
			return
		}
		p = q
	}
	zzHammer([]ControlPacket{p})
}

// ZZ_C13_will_race: same arguments as ZZ_C13_will.
func ZZ_C13_will_race(a []int) {
	abs := zzGen(zzShapeOf(a))
	w := zzBuildWill(abs)
	c := NewConnect()
	c.SetWill(w)
	zzHammer([]ControlPacket{c, w})
}

// ZZ_C13_willmod_race: same arguments as ZZ_C13_willmod.
func ZZ_C13_willmod_race(a []int) {
	abs := zzGen(zzShapeOf(a[1:]))
	w := zzBuildWill(abs)
	c := NewConnect()
	c.SetWill(w)
	zzWillMod(w, a[0])
	zzHammer([]ControlPacket{c, w})
}

// ZZ_C13_subid_race: same arguments as ZZ_C13_subid.
func ZZ_C13_subid_race(a []int) {
	p := NewSubscribe()
	p.SetPacketID(zzU16("pid"))
	p.SetSubscriptionID(int(zzU32("sid")))
	p.AddFilters(NewTopicFilter(string(zzBytes("f", 1)), Opt(zzU8("o")&3)))
	zzHammer([]ControlPacket{p})
}

// ZZ_C13_read_race: ReadPacket on distinct private streams from 8 goroutines.
func ZZ_C13_read_race(a []int) {
	n := a[1]
	f := append([]byte{byte(a[0])<<4 | zzU8("fl")&0x0f, byte(n)}, zzBytes("b", n)...)
	var wg sync.WaitGroup
	for g := 0; g < 8; g++ {
		wg.Add(1)
		go func() {
			defer wg.Done()
			for i := 0; i < 200; i++ {
				ReadPacket(&zzContig{b: append([]byte{}, f...)})
				runtime.Gosched()
			}
		}()
	}
	wg.Wait()
}
