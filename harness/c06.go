//go:build verif

package mq

import (
	"bufio"
	"errors"
	"io"
)

// C06 — ReadPacket consumes exactly one frame from the stream.

const zzTrail = 3

// zzOneFrame: read one frame f followed by trailing bytes, twice with
// different trailing bytes; exact consumption and independence.
func zzOneFrame(f []byte) {
	s1 := append(append([]byte{}, f...), zzBytes("t", zzTrail)...)
	s2 := append(append([]byte{}, f...), zzBytes("u", zzTrail)...)
	r1 := &zzContig{b: s1}
	q1, e1 := ReadPacket(r1)
	zzReach("one")
	zzAssert(r1.i == len(f), "ReadPacket does not consume exactly one frame")
	r2 := &zzContig{b: s2}
	q2, e2 := ReadPacket(r2)
	zzAssert((e1 == nil) == (e2 == nil), "the result depends on bytes after the frame")
	if e1 == nil && e2 == nil {
		zzViewEq(zzSnap(q2), zzSnap(q1), "bytes after the frame change the packet")
	}
	// the same stream behind a bufio.Reader (which also offers Peek, Discard,
	// ReadByte, WriteTo ...): what has been taken from the stream is what the
	// bufio.Reader took minus what it still holds
	r3 := &zzContig{b: s1}
	br := bufio.NewReaderSize(r3, 4096)
	q3, e3 := ReadPacket(br)
	zzAssert(r3.i-br.Buffered() == len(f), "ReadPacket through a bufio.Reader does not consume exactly one frame")
	zzAssert((e1 == nil) == (e3 == nil), "the result depends on the kind of reader")
	if e1 == nil && e3 == nil {
		zzViewEq(zzSnap(q3), zzSnap(q1), "reading through a bufio.Reader changes the packet")
	}
	zzEmitU("consumed", uint64(r1.i))
	zzEmitU("err", zzB2U(e1 != nil))
}

// ZZ_C06_amode: first byte symbolic, remaining length a[0] (one byte form),
// body of a[0] arbitrary bytes.
func ZZ_C06_amode(a []int) {
	n := a[0]
	f := append([]byte{zzU8("b0"), byte(n)}, zzBytes("b", n)...)
	zzOneFrame(f)
}

// ZZ_C06_smode: a valid frame of shape a from the reference encoder.
func ZZ_C06_smode(a []int) {
	zzOneFrame(zzRefEncode(zzGen(zzShapeOf(a))))
}

// ZZ_C06_seq: the frames of types a[0], a[1], ... (minimal valid frames with
// symbolic values) concatenated; successive calls return them in order and
// then io.EOF.
func ZZ_C06_seq(a []int) {
	var s []byte
	var want []*zzAbs
	for i, t := range a {
		sh := zzShape{typ: t, slen: 1, nList: 1, nz: 2, mask: i % 2}
		abs := zzGen2(sh, "f"+zzItoa(i)+".")
		want = append(want, abs)
		s = append(s, zzRefEncode(abs)...)
	}
	r := &zzContig{b: s}
	var kept []ControlPacket
	for i := range want {
		q, err := ReadPacket(r)
		zzAssert(err == nil, "a frame of a sequence is rejected")
		if err != nil {
			return
		}
		zzViewEq(zzSnap(q), zzExpect(want[i]), "sequence frame "+zzItoa(i))
		kept = append(kept, q)
	}
	// packets returned earlier are not touched by later calls
	for i := range kept {
		zzViewEq(zzSnap(kept[i]), zzExpect(want[i]), "after the later calls, sequence frame "+zzItoa(i))
	}
	zzReach("seq")
	q, err := ReadPacket(r)
	zzAssert(q == nil && err != nil, "a packet after the last frame")
	zzAssert(errors.Is(err, io.EOF), "end of stream on a frame boundary is not reported as io.EOF")
	zzAssert(r.i == len(s), "bytes left unread")
}
