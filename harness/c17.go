//go:build verif

package mq

// C17 — WellFormed decides exactly the documented rules and String agrees.

// zzNoBang: contents are assumed free of '!' so that looking for the literal
// "malformed!" in the rendered string means the same natively.
func zzNoBang(b []byte) bool {
	ok := true
	for i := range b {
		ok = zzAnd(ok, zzAnd(b[i] != '!', zzAnd(b[i] >= 1, b[i] <= 0x7f)))
	}
	return ok
}

func zzCheckWF(p ControlPacket, malformed bool, what string) {
	wf := p.(HasWellFormed)
	zzAssert((wf.WellFormed() != nil) == malformed, what+": WellFormed disagrees with the documented rules")
	zzAssert(zzStrHasLit(p.String(), "malformed!") == (wf.WellFormed() != nil), what+": String() and WellFormed() disagree")
}

// ZZ_C17_pub: PUBLISH through the API. a[0] = topic length, a[1] = 1: other
// fields present.
func ZZ_C17_pub(a []int) {
	var topic []byte
	if a[0] <= 24 {
		topic = zzBytes("topic", a[0])
	} else {
		// long topics: concrete filler with two symbolic bytes at each end
		topic = make([]byte, a[0])
		for i := range topic {
			topic[i] = byte('a' + i%23)
		}
		copy(topic, zzBytes("topic.head", 2))
		copy(topic[a[0]-2:], zzBytes("topic.tail", 2))
	}
	alias := zzU16("alias")
	qos := zzU8("qos")
	pid := zzU16("pid")
	corr := zzBytes("corr", a[1])
	zzAssume(zzAnd(zzNoBang(topic), zzAnd(zzNoBang(corr), qos <= 3)))
	p := NewPublish()
	p.SetTopicName(string(topic))
	p.SetTopicAlias(alias)
	p.SetQoS(qos)
	p.SetPacketID(pid)
	if a[1] > 0 {
		p.SetCorrelationData(corr)
		p.SetRetain(zzBool("retain"))
		p.SetDuplicate(zzBool("dup"))
	}
	zzReach("pub")
	mal := zzOr(zzAnd(len(topic) == 0, alias == 0), zzOr(zzAnd(zzOr(qos == 1, qos == 2), pid == 0), qos == 3))
	zzCheckWF(p, mal, "PUBLISH")
	zzEmitU("malformed", zzB2U(p.WellFormed() != nil))
}

// ZZ_C17_pubwire: PUBLISH decoded from the wire: first byte flags symbolic
// (QoS 0..3), topic length a[0], alias present a[1].
func ZZ_C17_pubwire(a []int) {
	fl := zzU8("flags")
	zzAssume(fl <= 15)
	q := int(zzConc(uint64(fl>>1) & 3))
	var e zzEnc
	topic := zzBytes("topic", a[0])
	zzAssume(zzNoBang(topic))
	e.str(topic)
	pid := uint16(0)
	if q == 1 || q == 2 {
		pid = zzU16("pid")
		e.u16(pid)
	}
	alias := uint16(0)
	if a[1] == 1 {
		alias = zzU16("alias")
		e.u8(3)
		e.u8(0x23)
		e.u16(alias)
	} else {
		e.u8(0)
	}
	f := zzFrame(0x30|fl, e.b)
	pk, err := ReadPacket(&zzContig{b: f})
	if err != nil {
		return
	}
	p, ok := pk.(*Publish)
	if !ok {
		return
	}
	zzReach("pubwire")
	mal := zzOr(zzAnd(len(topic) == 0, alias == 0), zzOr(zzAnd(q == 1 || q == 2, pid == 0), q == 3))
	zzCheckWF(p, mal, "decoded PUBLISH")
}

// ZZ_C17_sub: SUBSCRIBE with a[0] filters of length a[1] (0 or 1), option
// bytes symbolic (all 256), subscription identifier: a[2] = 0 unset,
// 1 symbolic int over the whole int range.
func ZZ_C17_sub(a []int) {
	p := NewSubscribe()
	p.SetPacketID(zzU16("pid"))
	mal := a[0] == 0
	dom := true
	for i := 0; i < a[0]; i++ {
		f := zzBytes("f"+zzItoa(i), a[1])
		dom = zzAnd(dom, zzNoBang(f))
		o := zzU8("o" + zzItoa(i))
		p.AddFilters(NewTopicFilter(string(f), Opt(o)))
		mal = zzOr(mal, zzOr(len(f) == 0, o&3 == 3))
	}
	if a[2] == 1 {
		sid := int(zzU64("sid"))
		zzAssume(sid >= 0)
		p.SetSubscriptionID(sid)
		mal = zzOr(mal, sid > 268435455)
	}
	zzAssume(dom)
	zzReach("sub")
	zzCheckWF(p, mal, "SUBSCRIBE")
	zzEmitU("malformed", zzB2U(p.WellFormed() != nil))
}

// ZZ_C17_subwire: SUBSCRIBE decoded from the wire with a[0] filters of
// length a[1], option bytes symbolic.
func ZZ_C17_subwire(a []int) {
	var e zzEnc
	e.u16(zzU16("pid"))
	e.u8(0)
	mal := false
	dom := true
	for i := 0; i < a[0]; i++ {
		f := zzBytes("f"+zzItoa(i), a[1])
		dom = zzAnd(dom, zzNoBang(f))
		o := zzU8("o" + zzItoa(i))
		e.str(f)
		e.u8(o)
		mal = zzOr(mal, zzOr(len(f) == 0, o&3 == 3))
	}
	zzAssume(dom)
	pk, err := ReadPacket(&zzContig{b: zzFrame(0x82, e.b)})
	if err != nil {
		return
	}
	p, ok := pk.(*Subscribe)
	if !ok {
		return
	}
	zzReach("subwire")
	zzCheckWF(p, mal, "decoded SUBSCRIBE")
}

// ZZ_C17_tf: TopicFilter alone: filter length a[0], options symbolic.
func ZZ_C17_tf(a []int) {
	f := zzBytes("f", a[0])
	o := zzU8("o")
	zzAssume(zzNoBang(f))
	tf := NewTopicFilter(string(f), Opt(o))
	zzReach("tf")
	mal := zzOr(len(f) == 0, o&3 == 3)
	zzAssert((tf.WellFormed() != nil) == mal, "TopicFilter.WellFormed disagrees with the documented rules")
}
