//go:build verif

package mq

// C10 — WriteTo emits one complete frame and reports its size truthfully.

// zzOneFrameBytes: f is exactly one frame by its own remaining length.
func zzOneFrameBytes(f []byte) {
	if len(f) < 2 {
		zzAssert(false, "frame shorter than a fixed header")
		return
	}
	rl, vn, ok := zzVbParse(f[1:])
	zzAssert(ok, "remaining length is not a terminated variable byte integer")
	if ok {
		zzAssert(len(f) == 1+vn+rl, "the bytes written are not exactly one frame")
	}
}

// ZZ_C10_write: a[0] = writer behaviour (0 accept, 1 fail before writing,
// 2 accept a symbolic number of bytes below the frame length), a[1:] = shape.
func ZZ_C10_write(a []int) {
	mode := a[0]
	abs := zzGen(zzShapeOf(a[1:]))
	p := zzBuild(abs)
	zzWriteCheck(p, mode)
}

func zzWriteCheck(p ControlPacket, mode int) {
	// the reference run
	var ok zzSink
	n0, err0 := p.WriteTo(&ok)
	zzReach("write")
	zzAssert(err0 == nil, "WriteTo reports an error although the writer accepted everything")
	zzAssert(int(n0) == len(ok.b), "the returned count differs from the number of bytes written")
	zzOneFrameBytes(ok.b)
	sz, found := zzStrIntBefore(p.String(), " bytes")
	zzAssert(found, "String() does not print the size as 'N bytes'")
	if found {
		zzAssert(sz == len(ok.b), "String() prints a size that differs from the frame length")
	}
	zzEmitU("n", uint64(n0))
	e := &zzErr{id: 3}
	switch mode {
	case 1:
		w := &zzFailW{e: e}
		n, err := p.WriteTo(w)
		zzAssert(w.calls <= 1, "WriteTo keeps writing after the writer reported an error")
		zzAssert(err == error(e), "WriteTo does not return the writer's error")
		zzAssert(n == 0, "WriteTo reports bytes although the writer accepted none")
	case 2:
		k := zzInt("k", 0, len(ok.b)-1)
		w := &zzShortW{k: k, e: e}
		n, err := p.WriteTo(w)
		zzAssert(w.after == 0, "WriteTo keeps writing after the writer reported an error")
		zzAssert(err == error(e), "WriteTo does not return the writer's error")
		zzAssert(int(n) == k, "WriteTo does not report the number of bytes the writer accepted")
	}
}

// ZZ_C10_odd: constructible-but-malformed packets and Undefined.
func ZZ_C10_odd(a []int) {
	switch a[0] {
	case 0:
		var u Undefined
		w := &zzSink{}
		n, err := u.WriteTo(w)
		zzReach("undefined")
		zzAssert(err != nil, "Undefined.WriteTo must return an error")
		zzAssert(n == 0 && w.calls == 0 && len(w.b) == 0, "Undefined.WriteTo must not emit bytes")
		sz, found := zzStrIntBefore(u.String(), " bytes")
		zzAssert(found && sz == 0, "Undefined.String() size")
	case 1: // PUBLISH with QoS 3
		p := NewPublish()
		p.SetQoS(3)
		p.SetTopicName("t")
		p.SetPacketID(zzU16("pid"))
		zzWriteCheck(p, a[1])
	case 2: // SUBSCRIBE without filters
		p := NewSubscribe()
		p.SetPacketID(zzU16("pid"))
		zzWriteCheck(p, a[1])
	case 3: // SUBACK / UNSUBACK / UNSUBSCRIBE without list
		zzWriteCheck(NewSubAck(), a[1])
		zzWriteCheck(NewUnsubAck(), a[1])
		zzWriteCheck(NewUnsubscribe(), a[1])
	case 4: // zero values of all defined types
		for t := 1; t <= 15; t++ {
			zzWriteCheck(zzNew(t), 0)
		}
	case 5: // PUBLISH without topic
		p := NewPublish()
		p.SetPayload(zzBytes("pl", 2))
		zzWriteCheck(p, a[1])
	}
}

// ZZ_C10_rewrite: a[0] = setter, a[1] = length of its string argument (0
// shrinks the frame, 2 grows it), a[2:] = shape. The packet is written and
// rendered, then modified by one setter / adder, then written again: both
// times exactly one frame whose size WriteTo and String() report truthfully.
func ZZ_C10_rewrite(a []int) {
	abs := zzGen(zzShapeOf(a[2:]))
	p := zzBuild(abs)
	zzWriteCheck(p, 0)
	if !zzApplySetter(p, abs, a[0], a[1], "x.") {
		return
	}
	zzReach("rewrite")
	zzWriteCheck(p, 0)
}

// ZZ_C10_bigwrite: a large packet of shape a against writers that accept
// only the first k bytes, for k at every position of the first 40 bytes, in
// the middle and at the end.
func ZZ_C10_bigwrite(a []int) {
	abs := zzGen(zzShapeOf(a))
	p := zzBuild(abs)
	var ok zzSink
	n0, err0 := p.WriteTo(&ok)
	zzReach("bigwrite")
	zzAssert(err0 == nil && int(n0) == len(ok.b), "WriteTo of a large packet: truthful count")
	zzOneFrameBytes(ok.b)
	L := len(ok.b)
	ks := []int{L / 2, L - 2, L - 1}
	for k := 0; k < 40 && k < L; k++ {
		ks = append(ks, k)
	}
	for _, k := range []int{127, 128, 4095, 4096, 4097, 16383, 16384, 16385, 32767, 32768, 32769, 65535, 65536, 65537} {
		if k < L {
			ks = append(ks, k)
		}
	}
	e := &zzErr{id: 3}
	for _, k := range ks {
		w := &zzShortW{k: k, e: e}
		n, err := p.WriteTo(w)
		zzAssert(w.after == 0, "WriteTo keeps writing after the writer reported an error")
		zzAssert(err == error(e), "WriteTo does not return the writer's error")
		zzAssert(int(n) == k, "WriteTo does not report the number of bytes the writer accepted")
	}
	zzEmitU("len", uint64(L))
}
