//go:build verif

package mq

// Native side of replay and per-path translation validation: runs harness
// functions compiled by the real toolchain against the real library on the
// assignments the engine produced and reports outcome and observations.

import (
	"bufio"
	"encoding/json"
	"fmt"
	"os"
	"testing"
	"time"
)

type zzCase struct {
	ID    int               `json:"id"`
	Fn    string            `json:"fn"`
	Args  []int             `json:"args"`
	Model map[string]uint64 `json:"model"`
}

type zzResult struct {
	ID      int      `json:"id"`
	Outcome string   `json:"outcome"`
	Emits   []string `json:"emits"`
}

func zzRunCase(c zzCase) (res zzResult) {
	res.ID = c.ID
	zzTab = c.Model
	if zzTab == nil {
		zzTab = map[string]uint64{}
	}
	zzOut = nil
	defer func() {
		res.Emits = zzOut
		if r := recover(); r != nil {
			if s, ok := r.(zzStop); ok {
				res.Outcome = s.kind + ":" + s.label
			} else {
				res.Outcome = "panic:" + fmt.Sprint(r)
			}
		}
	}()
	h := zzHarnesses[c.Fn]
	if h == nil {
		res.Outcome = "noharness"
		return
	}
	h(c.Args)
	res.Outcome = "ok"
	return
}

func TestZZReplay(t *testing.T) {
	in := os.Getenv("VERIF_CASES")
	out := os.Getenv("VERIF_RESULTS")
	if in == "" || out == "" {
		t.Skip("VERIF_CASES / VERIF_RESULTS not set")
	}
	f, err := os.Open(in)
	if err != nil {
		t.Fatal(err)
	}
	defer f.Close()
	o, err := os.Create(out)
	if err != nil {
		t.Fatal(err)
	}
	defer o.Close()
	w := bufio.NewWriter(o)
	defer w.Flush()
	sc := bufio.NewScanner(f)
	sc.Buffer(make([]byte, 1<<20), 1<<28)
	enc := json.NewEncoder(w)
	for sc.Scan() {
		var c zzCase
		if err := json.Unmarshal(sc.Bytes(), &c); err != nil {
			t.Fatal(err)
		}
		// each case runs under a watchdog: a case that does not return within
		// 10 s is recorded as a hang and the process exits (the driver
		// restarts it with the remaining cases)
		done := make(chan zzResult, 1)
		go func() { done <- zzRunCase(c) }()
		select {
		case res := <-done:
			enc.Encode(res)
			w.Flush()
		case <-time.After(10 * time.Second):
			enc.Encode(zzResult{ID: c.ID, Outcome: "hang:no return within 10 s"})
			w.Flush()
			o.Sync()
			os.Exit(3)
		}
	}
}
