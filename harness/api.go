//go:build verif

package mq

// Harness API. The bodies below are what runs natively (replay and per-path
// translation validation); the symbolic engine intercepts every zz* function
// by name and ignores the bodies.

import (
	"runtime"
	"strconv"
	"strings"
)

// zzTab is the replay table: symbolic input name -> value.
var zzTab map[string]uint64

// zzOut collects the observations of a native run.
var zzOut []string

type zzStop struct {
	kind  string // "assume" or "assert"
	label string
}

func zzU8(name string) uint8   { return uint8(zzTab[name]) }
func zzU16(name string) uint16 { return uint16(zzTab[name]) }
func zzU32(name string) uint32 { return uint32(zzTab[name]) }
func zzU64(name string) uint64 { return zzTab[name] }
func zzBool(name string) bool  { return zzTab[name]&1 != 0 }

// zzInt is a symbolic int constrained to lo..hi.
func zzInt(name string, lo, hi int) int {
	if lo == hi {
		return lo
	}
	v := int(int64(zzTab[name]))
	if v < lo || v > hi {
		panic(zzStop{"assume", "zzInt " + name})
	}
	return v
}

// zzBytes is a slice of n symbolic bytes.
func zzBytes(name string, n int) []byte {
	b := make([]byte, n)
	for i := range b {
		b[i] = byte(zzTab[name+"["+strconv.Itoa(i)+"]"])
	}
	return b
}

func zzAssume(c bool) {
	if !c {
		panic(zzStop{"assume", ""})
	}
}

func zzAssert(c bool, label string) {
	if !c {
		panic(zzStop{"assert", label})
	}
}

func zzReach(label string) {}

func zzEmitU(tag string, v uint64) { zzOut = append(zzOut, tag+"="+strconv.FormatUint(v, 10)) }
func zzEmitB(tag string, b []byte) { zzOut = append(zzOut, tag+"="+strconv.Quote(string(b))) }
func zzEmitS(tag string, s string) { zzOut = append(zzOut, tag+"="+strconv.Quote(s)) }

func zzNative() bool { return true }

func zzB2U(b bool) uint64 {
	if b {
		return 1
	}
	return 0
}

func zzIte(c bool, a, b uint64) uint64 {
	if c {
		return a
	}
	return b
}

func zzAnd(a, b bool) bool { return a && b }
func zzOr(a, b bool) bool  { return a || b }

func zzBytesEq(a, b []byte) bool { return string(a) == string(b) }
func zzStrEq(a, b string) bool   { return a == b }

func zzConc(v uint64) uint64 { return v }

func zzStrHasLit(s, lit string) bool { return strings.Contains(s, lit) }

// zzStrIntBefore returns the decimal integer printed immediately before the
// first occurrence of lit in s.
func zzStrIntBefore(s, lit string) (int, bool) {
	k := strings.Index(s, lit)
	if k <= 0 {
		return 0, false
	}
	j := k
	for j > 0 && s[j-1] >= '0' && s[j-1] <= '9' {
		j--
	}
	if j == k {
		return 0, false
	}
	if j > 0 && s[j-1] == '-' {
		j--
	}
	n, err := strconv.Atoi(s[j:k])
	return n, err == nil
}

// Monitors exist only in the engine; natively they read as zero.
func zzMarkShared()       {}
func zzSharedWrites() int { return 0 }
func zzGlobalWrites() int { return 0 }
func zzAllocBytes() int   { return 0 }
func zzSteps() int        { return 0 }
func zzSetBudget(steps, bytes int) {
	var ms runtime.MemStats
	runtime.ReadMemStats(&ms)
	zzBudgetBytes, zzBudgetBase = bytes, ms.TotalAlloc
}

var (
	zzBudgetBytes int
	zzBudgetBase  uint64
)

// zzBudgetCheck: natively the bytes allocated since zzSetBudget are compared
// with twice the budget (the engine's allocation meter is the precise
// check; this is the native demonstration of an exhausted budget).
func zzBudgetCheck() {
	var ms runtime.MemStats
	runtime.ReadMemStats(&ms)
	if zzBudgetBytes > 0 && ms.TotalAlloc-zzBudgetBase > uint64(2*zzBudgetBytes) {
		panic(zzStop{"assert", "allocation budget"})
	}
}
func zzOrderMode(mode string) {}

// zzNewProcess: the engine re-initialises the package-level variables with
// the given map iteration order (another process); natively a no-op — the
// native demonstration really runs several processes.
func zzNewProcess(mode string) {}

// zzRopeW is the writer handed to Dump: the engine records formatted output
// symbolically, natively it is a byte buffer.
type zzRopeW struct{ b []byte }

func (w *zzRopeW) Write(p []byte) (int, error) {
	w.b = append(w.b, p...)
	return len(p), nil
}
func (w *zzRopeW) String() string { return string(w.b) }
