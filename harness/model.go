//go:build verif

package mq

// Abstract packet model and specification tables. Written from the OASIS
// MQTT v5.0 text with literal numbers only; nothing here mentions an
// identifier of the library.

const (
	zzTByte = 1 // one byte
	zzTU16  = 2
	zzTU32  = 3
	zzTVbi  = 4 // variable byte integer
	zzTStr  = 5 // UTF-8 string
	zzTBin  = 6 // binary data
	zzTPair = 7 // UTF-8 string pair
)

// zzPropType is the wire type of property id (0 = undefined identifier).
func zzPropType(id byte) int {
	switch id {
	case 0x01, 0x17, 0x19, 0x24, 0x25, 0x28, 0x29, 0x2a:
		return zzTByte
	case 0x13, 0x21, 0x22, 0x23:
		return zzTU16
	case 0x02, 0x11, 0x18, 0x27:
		return zzTU32
	case 0x0b:
		return zzTVbi
	case 0x03, 0x08, 0x12, 0x15, 0x1a, 0x1c, 0x1f:
		return zzTStr
	case 0x09, 0x16:
		return zzTBin
	case 0x26:
		return zzTPair
	}
	return 0
}

// zzPropBool: byte properties whose only legal values are 0 and 1 and that
// the API exposes as bool.
func zzPropBool(id byte) bool {
	switch id {
	case 0x01, 0x17, 0x19, 0x25, 0x28, 0x29, 0x2a:
		return true
	}
	return false
}

const zzWill = 16 // property context of the will message

// zzPropList: the properties (other than user property) allowed in context
// ctx (packet type 1..15, or zzWill), in ascending identifier order.
func zzPropList(ctx int) []byte {
	switch ctx {
	case 1:
		return []byte{0x11, 0x15, 0x16, 0x17, 0x19, 0x21, 0x22, 0x27}
	case 2:
		return []byte{0x11, 0x12, 0x13, 0x15, 0x16, 0x1a, 0x1c, 0x1f, 0x21, 0x22, 0x24, 0x25, 0x27, 0x28, 0x29, 0x2a}
	case 3:
		return []byte{0x01, 0x02, 0x03, 0x08, 0x09, 0x23}
	case 4, 5, 6, 7, 9, 11:
		return []byte{0x1f}
	case 8:
		return []byte{0x0b}
	case 14:
		return []byte{0x11, 0x1c, 0x1f}
	case 15:
		return []byte{0x15, 0x16, 0x1f}
	case zzWill:
		return []byte{0x01, 0x02, 0x03, 0x08, 0x09, 0x18}
	}
	return nil
}

// zzHasProps: does the packet type carry a property section at all.
func zzHasProps(typ int) bool { return typ != 12 && typ != 13 && typ >= 1 && typ <= 15 }

func zzPropAllowed(ctx int, id byte) bool {
	if id == 0x26 {
		return ctx == zzWill || zzHasProps(ctx)
	}
	if id == 0x0b && ctx == 3 {
		return true
	}
	for _, x := range zzPropList(ctx) {
		if x == id {
			return true
		}
	}
	return false
}

// zzProp is one property occurrence.
type zzProp struct {
	id byte
	u  uint32 // byte / u16 / u32 / vbi value
	s  []byte // string / binary value, or the key of a pair
	v  []byte // value of a pair
}

// zzAbs is what an MQTT control packet carries.
type zzAbs struct {
	typ    int
	hflags byte // low nibble of the first byte

	// CONNECT
	protoName   []byte
	protoVer    byte
	protoSet    bool // set through SetProtocolName / SetProtocolVersion
	connFlags   byte // as on the wire (derived for generated packets)
	keepAlive   uint16
	clientID    []byte
	hasWill     bool
	willProps   []zzProp
	willTopic   []byte
	willPayload []byte
	willDup     bool // DUP bit of the attached will message (API-built packets only; not on the wire)
	hasUser     bool
	username    []byte
	hasPass     bool
	password    []byte

	ackFlags byte // CONNACK
	reason   byte // CONNACK, PUBACK family, DISCONNECT, AUTH
	// short forms: how much of "reason code, properties" is on the wire
	// 0: reason and property length present; 1: reason only; 2: neither
	form int

	topic   []byte // PUBLISH
	pid     uint16 // packet identifier
	payload []byte

	props []zzProp

	filters [][]byte // SUBSCRIBE, UNSUBSCRIBE
	opts    []byte   // SUBSCRIBE
	codes   []byte   // SUBACK, UNSUBACK
}

// pu returns the numeric value of the first property id in ps, 0 if absent.
func zzPU(ps []zzProp, id byte) uint64 {
	for i := range ps {
		if ps[i].id == id {
			return uint64(ps[i].u)
		}
	}
	return 0
}

func zzPS(ps []zzProp, id byte) []byte {
	for i := range ps {
		if ps[i].id == id {
			return ps[i].s
		}
	}
	return nil
}

func zzPHas(ps []zzProp, id byte) bool {
	for i := range ps {
		if ps[i].id == id {
			return true
		}
	}
	return false
}

// ---------------------------------------------------------------- generators

// zzShape fixes what is concrete about a generated packet; every value and
// every content byte is symbolic.
type zzShape struct {
	typ   int
	mask  int // bit i: property zzPropList(typ)[i] present
	order int // 0 ascending ids, 1 descending, k>=2 rotated by k-1; user properties last / first
	slen  int // length of every present string / binary field
	nUser int // user properties
	nList int // filters / reason codes / subscription identifiers
	will  int // CONNECT: bit0 will present, bits 1.. will property mask
	cred  int // CONNECT: bit0 user name, bit1 password
	qos   int // PUBLISH: 0..2
	form  int // PUBACK family / DISCONNECT / AUTH short form
	nz    int // 1: present scalars are assumed non-zero; 2: only values that must not be 0; 3: concrete template values
	fld   int // index (1-based) of one string field that gets length flen; 0 none
	flen  int
	big   int // payload / will payload length override (0 = slen)
	proto int // CONNECT: 0 default protocol name and version; k>0: a protocol name of k-1 symbolic bytes and a symbolic version
}

func zzShapeOf(a []int) zzShape {
	g := func(i int) int {
		if i < len(a) {
			return a[i]
		}
		return 0
	}
	return zzShape{typ: g(0), mask: g(1), order: g(2), slen: g(3), nUser: g(4), nList: g(5), will: g(6), cred: g(7), qos: g(8), form: g(9), nz: g(10), fld: g(11), flen: g(12), big: g(13), proto: g(14)}
}

type zzGenState struct {
	sh   zzShape
	nstr int  // running index of string fields (for fld)
	dom  bool // accumulated domain constraint
	pre  string
}

// draws: symbolic inputs, or fixed values for concrete templates (conc)
func (g *zzGenState) dBool(name string) bool {
	if g.sh.nz == 3 {
		return true
	}
	return zzBool(name)
}
func (g *zzGenState) dU8(name string) uint8 {
	if g.sh.nz == 3 {
		return 1
	}
	return zzU8(name)
}
func (g *zzGenState) dU16(name string) uint16 {
	if g.sh.nz == 3 {
		return 0x0102
	}
	return zzU16(name)
}
func (g *zzGenState) dU32(name string) uint32 {
	if g.sh.nz == 3 {
		return 0x01020304
	}
	return zzU32(name)
}
func (g *zzGenState) dBytes(name string, n int) []byte {
	if g.sh.nz == 3 {
		b := make([]byte, n)
		for i := range b {
			b[i] = byte('a' + i%23)
		}
		return b
	}
	return zzBytes(name, n)
}

// chr: the character domain of UTF-8 strings: printable ASCII without the
// topic wildcards '#' and '+' (a library that validates UTF-8, refuses
// control characters, or refuses wildcards in topic names stays quiet).
func (g *zzGenState) chr(c byte) bool {
	return zzAnd(zzAnd(c >= 0x20, c <= 0x7e), zzAnd(c != '#', c != '+'))
}

// content returns n content bytes. Up to 24 bytes all are symbolic; longer
// contents have 4 symbolic bytes at each end and concrete filler between.
func (g *zzGenState) content(name string, n int, utf8 bool) []byte {
	g.nstr++
	if g.sh.fld == g.nstr {
		n = g.sh.flen
	}
	return g.rawContent(g.pre+name, n, utf8)
}

func (g *zzGenState) rawContent(name string, n int, utf8 bool) []byte {
	var b []byte
	if n <= 24 {
		b = g.dBytes(name, n)
		if utf8 {
			for i := range b {
				g.dom = zzAnd(g.dom, g.chr(b[i]))
			}
		}
		return b
	}
	b = make([]byte, n)
	for i := range b {
		b[i] = byte('a' + i%23)
	}
	h := g.dBytes(name+".head", 4)
	t := g.dBytes(name+".tail", 4)
	for i := 0; i < 4; i++ {
		if utf8 {
			g.dom = zzAnd(g.dom, g.chr(h[i]))
			g.dom = zzAnd(g.dom, g.chr(t[i]))
		}
		b[i] = h[i]
		b[n-4+i] = t[i]
	}
	return b
}

func (g *zzGenState) prop(name string, id byte) zzProp {
	p := zzProp{id: id}
	switch zzPropType(id) {
	case zzTByte:
		if zzPropBool(id) {
			p.u = uint32(zzB2U(g.dBool(g.pre + name)))
		} else if id == 0x24 {
			// Maximum QoS: 0 or 1
			x := g.dU8(g.pre + name)
			g.dom = zzAnd(g.dom, x <= 1)
			p.u = uint32(x)
		} else {
			p.u = uint32(g.dU8(g.pre + name))
		}
	case zzTU16:
		p.u = uint32(g.dU16(g.pre + name))
	case zzTU32:
		p.u = g.dU32(g.pre + name)
	case zzTVbi:
		p.u = g.dU32(g.pre + name)
		g.dom = zzAnd(g.dom, zzAnd(p.u >= 1, p.u <= 268435455))
	case zzTStr:
		p.s = g.content(name, g.sh.slen, true)
	case zzTBin:
		p.s = g.content(name, g.sh.slen, false)
	}
	if g.sh.nz == 1 && zzPropType(id) <= zzTVbi {
		g.dom = zzAnd(g.dom, p.u != 0)
	}
	// values the specification names as protocol errors are outside "valid"
	switch id {
	case 0x21, 0x23, 0x27:
		if g.sh.nz == 2 {
			g.dom = zzAnd(g.dom, p.u != 0)
		}
	}
	return p
}

func zzItoa(i int) string {
	if i == 0 {
		return "0"
	}
	s := ""
	for i > 0 {
		s = string(rune('0'+i%10)) + s
		i /= 10
	}
	return s
}

// props generates the property list for context ctx.
func (g *zzGenState) props(prefix string, ctx, mask, nUser, nSub int) []zzProp {
	ids := zzPropList(ctx)
	var ps []zzProp
	for i, id := range ids {
		if mask&(1<<uint(i)) == 0 {
			continue
		}
		ps = append(ps, g.prop(prefix+"p"+zzItoa(int(id)), id))
	}
	if ctx == 3 {
		for i := 0; i < nSub; i++ {
			ps = append(ps, g.prop(prefix+"sub"+zzItoa(i), 0x0b))
		}
	}
	var ups []zzProp
	for i := 0; i < nUser; i++ {
		kl := g.sh.slen
		if kl < 1 {
			kl = 1
		}
		k := g.content(prefix+"uk"+zzItoa(i), kl, true)
		v := g.content(prefix+"uv"+zzItoa(i), g.sh.slen, true)
		ups = append(ups, zzProp{id: 0x26, s: k, v: v})
	}
	switch {
	case g.sh.order == 0:
		ps = append(ps, ups...)
	case g.sh.order == 1:
		for i, j := 0, len(ps)-1; i < j; i, j = i+1, j-1 {
			ps[i], ps[j] = ps[j], ps[i]
		}
		ps = append(ups, ps...)
	default:
		ps = append(ps, ups...)
		if len(ps) > 0 {
			k := (g.sh.order - 1) % len(ps)
			ps = append(append([]zzProp{}, ps[k:]...), ps[:k]...)
		}
	}
	return ps
}

// zzGen builds the abstract packet of shape sh with symbolic values. The
// domain constraint (UTF-8 range, identifier ranges) is assumed at the end.
func zzGen(sh zzShape) *zzAbs { return zzGen2(sh, "") }

// zzGen2 is zzGen with a prefix for the names of the symbolic inputs, so
// that several packets can be generated in one harness.
func zzGen2(sh zzShape, pre string) *zzAbs {
	g := &zzGenState{sh: sh, dom: true, pre: pre}
	a := &zzAbs{typ: sh.typ, form: sh.form}
	switch sh.typ {
	case 1:
		a.protoName = []byte("MQTT")
		a.protoVer = 5
		if sh.proto > 0 {
			a.protoName = g.rawContent(g.pre+"protoName", sh.proto-1, true)
			a.protoVer = g.dU8(g.pre + "protoVer")
			a.protoSet = true
		}
		a.keepAlive = g.dU16(g.pre + "keepAlive")
		clean := g.dBool(g.pre + "cleanStart")
		a.props = g.props("", 1, sh.mask, sh.nUser, 0)
		a.clientID = g.content("clientID", sh.slen, true)
		a.connFlags = byte(zzB2U(clean)) << 1
		if sh.will&1 == 1 {
			a.hasWill = true
			a.willProps = g.props("w.", zzWill, sh.will>>1, sh.nUser, 0)
			tl := sh.slen
			if tl < 1 {
				tl = 1
			}
			a.willTopic = g.content("willTopic", tl, true)
			wl := sh.slen
			if sh.big > 0 {
				wl = sh.big
			}
			a.willPayload = g.content("willPayload", wl, false)
			wq := g.dU8(g.pre + "willQoS")
			g.dom = zzAnd(g.dom, wq <= 2)
			wr := g.dBool(g.pre + "willRetain")
			a.connFlags |= 0x04 | (wq&3)<<3 | byte(zzB2U(wr))<<5
		}
		if sh.cred&1 == 1 {
			a.username = g.content("username", sh.slen, true)
			// (wire frames, form 1: the flag is set although the value is empty)
			a.hasUser = len(a.username) > 0 || sh.form == 1
			if a.hasUser {
				a.connFlags |= 0x80
			}
		}
		if sh.cred&2 == 2 {
			a.password = g.content("password", sh.slen, false)
			a.hasPass = len(a.password) > 0 || sh.form == 1
			if a.hasPass {
				a.connFlags |= 0x40
			}
		}
	case 2:
		a.ackFlags = byte(zzB2U(g.dBool(g.pre + "sessionPresent")))
		a.reason = g.dU8(g.pre + "reason")
		a.props = g.props("", 2, sh.mask, sh.nUser, 0)
	case 3:
		dup, ret := g.dBool(g.pre+"dup"), g.dBool(g.pre+"retain")
		a.hflags = byte(zzB2U(dup))<<3 | byte(sh.qos)<<1 | byte(zzB2U(ret))
		tl := sh.slen
		if tl < 1 && sh.mask&(1<<5) == 0 {
			tl = 1 // a topic name or a topic alias
		}
		a.topic = g.content("topic", tl, true)
		if sh.qos == 1 || sh.qos == 2 {
			a.pid = g.dU16(g.pre + "pid")
			g.dom = zzAnd(g.dom, a.pid != 0)
		}
		a.props = g.props("", 3, sh.mask, sh.nUser, sh.nList)
		pl := sh.slen
		if sh.big > 0 {
			pl = sh.big
		}
		a.payload = g.content("payload", pl, false)
	case 4, 5, 6, 7:
		if sh.typ == 6 {
			a.hflags = 2
		}
		a.pid = g.dU16(g.pre + "pid")
		a.reason = g.dU8(g.pre + "reason")
		a.props = g.props("", sh.typ, sh.mask, sh.nUser, 0)
	case 8:
		a.hflags = 2
		a.pid = g.dU16(g.pre + "pid")
		a.props = g.props("", 8, sh.mask, sh.nUser, 0)
		for i := 0; i < sh.nList; i++ {
			fl := sh.slen
			if fl < 1 {
				fl = 1
			}
			if sh.form == 3 && i%2 == 1 {
				fl = 0 // an empty-but-present filter (malformed, yet constructible)
			}
			a.filters = append(a.filters, g.content("filter"+zzItoa(i), fl, true))
			o := g.dU8(g.pre + "opt" + zzItoa(i))
			// reserved bits 0, QoS != 3, retain handling != 3
			g.dom = zzAnd(g.dom, zzAnd(o&0xc0 == 0, zzAnd(o&3 != 3, o&0x30 != 0x30)))
			a.opts = append(a.opts, o)
		}
	case 9, 11:
		a.pid = g.dU16(g.pre + "pid")
		a.props = g.props("", sh.typ, sh.mask, sh.nUser, 0)
		for i := 0; i < sh.nList; i++ {
			a.codes = append(a.codes, g.dU8(g.pre+"code"+zzItoa(i)))
		}
	case 10:
		a.hflags = 2
		a.pid = g.dU16(g.pre + "pid")
		a.props = g.props("", 10, sh.mask, sh.nUser, 0)
		for i := 0; i < sh.nList; i++ {
			fl := sh.slen
			if fl < 1 {
				fl = 1
			}
			if sh.form == 3 && i%2 == 1 {
				fl = 0 // an empty-but-present filter (malformed, yet constructible)
			}
			a.filters = append(a.filters, g.content("filter"+zzItoa(i), fl, true))
		}
	case 12, 13:
	case 14, 15:
		a.reason = g.dU8(g.pre + "reason")
		a.props = g.props("", sh.typ, sh.mask, sh.nUser, 0)
	}
	if sh.form == 1 || sh.form == 2 {
		a.props = nil
	}
	if sh.form == 2 {
		a.reason = 0
	}
	if sh.form == 3 {
		a.form = 0
	}
	zzAssume(g.dom)
	return a
}
