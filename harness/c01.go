//go:build verif

package mq

// C01 — write then read returns the same packet, field for field.

// ZZ_C01_rt: a = shape (see zzShapeOf).
func ZZ_C01_rt(a []int) {
	sh := zzShapeOf(a)
	abs := zzGen(sh)
	p := zzBuild(abs)
	want := zzExpect(abs)

	var w zzSink
	_, err := p.WriteTo(&w)
	zzAssert(err == nil, "WriteTo reports an error")
	q, err := ReadPacket(&zzContig{b: w.b})
	zzReach("rt")
	zzAssert(err == nil, "ReadPacket rejects what WriteTo produced")
	if err != nil {
		return
	}
	got := zzSnap(q)
	zzViewEq(got, want, "decoded")

	var w2 zzSink
	_, err = q.WriteTo(&w2)
	zzAssert(err == nil, "WriteTo of the decoded packet reports an error")
	if len(w2.b) != len(w.b) {
		zzAssert(false, "re-encoding the decoded packet changes the frame (length)")
	} else {
		zzAssert(zzBytesEq(w2.b, w.b), "re-encoding the decoded packet changes the frame")
	}
	zzEmitU("len", uint64(len(w.b)))
	if len(w.b) <= 64 {
		zzEmitB("frame", w.b)
		zzViewEmit(got, "q.")
	}
}

// ZZ_C01_rewill: as ZZ_C01_rt for a CONNECT whose will message replaces one
// attached earlier (symbolic QoS 0..3 and retain flag of the first one).
func ZZ_C01_rewill(a []int) {
	zzDecoyWill = true
	ZZ_C01_rt(a)
	zzDecoyWill = false
}
