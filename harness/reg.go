//go:build verif

package mq

// zzHarnesses maps harness names to functions for the native runner.
var zzHarnesses = map[string]func([]int){
	"ZZ_C15_enc":   ZZ_C15_enc,
	"ZZ_C15_rt":    ZZ_C15_rt,
	"ZZ_C15_agree": ZZ_C15_agree,
	"ZZ_C15_api":   ZZ_C15_api,
	"ZZ_C04_um":    ZZ_C04_um,
	"ZZ_C04_rp":    ZZ_C04_rp,
	"ZZ_C01_rt":    ZZ_C01_rt,
}
