//go:build verif

package mq

// C04 — decoding never panics. Panics are engine-level path outcomes; the
// harnesses only have to drive the decoders with arbitrary bytes.

// zzVbParse is the harness' own reader of a variable byte integer at b[0:]:
// value, number of bytes, ok (terminated within four bytes).
func zzVbParse(b []byte) (int, int, bool) {
	v := 0
	for i := 0; i < len(b) && i < 4; i++ {
		v |= int(b[i]&0x7f) << (7 * uint(i))
		if b[i]&0x80 == 0 {
			return v, i + 1, true
		}
	}
	return 0, 0, false
}

// ZZ_C04_um: UnmarshalBinary of packet type a[0] on a[1] arbitrary bytes.
func ZZ_C04_um(a []int) {
	p := zzNew(a[0])
	data := zzBytes("b", a[1])
	err := p.UnmarshalBinary(data)
	zzReach("um")
	zzEmitU("err", zzB2U(err != nil))
}

// ZZ_C04_rp: ReadPacket on a stream of a[0] arbitrary bytes (contiguous
// reader). The declared remaining length is assumed <= a[0]+2: larger
// declarations only change how many bytes are allocated before the read
// comes back short.
func ZZ_C04_rp(a []int) {
	m := a[0]
	s := zzBytes("s", m)
	if m >= 2 {
		rl, _, ok := zzVbParse(s[1:])
		if ok {
			zzAssume(rl <= m+2)
		}
	}
	p, err := ReadPacket(&zzContig{b: s})
	zzReach("rp")
	zzAssert((p == nil) != (err == nil), "ReadPacket must return exactly one of packet and error")
	zzEmitU("err", zzB2U(err != nil))
}

// ZZ_C04_window (T-mode): a valid frame of shape a[1:] in which a window of
// a[0] consecutive body bytes, at every offset (one offset per path), is
// replaced by unconstrained bytes — every length field raised or lowered to
// every value at once, type nibble and remaining length left as they are.
func ZZ_C04_window(a []int) {
	w := a[0]
	sh := zzShapeOf(a[1:])
	sh.nz = 3 // concrete template: only the window is symbolic
	abs := zzGen(sh)
	body := zzRefBody(abs)
	b0 := byte(abs.typ)<<4 | abs.hflags
	if len(body) < w {
		return
	}
	off := int(zzConc(uint64(zzInt("off", 0, len(body)-w))))
	win := zzBytes("win", w)
	copy(body[off:], win)
	p, err := ReadPacket(&zzContig{b: zzFrame(b0, body)})
	zzReach("window")
	zzAssert((p == nil) != (err == nil), "ReadPacket must return exactly one of packet and error")
	zzEmitU("off", uint64(off))
	zzEmitU("err", zzB2U(err != nil))
}

// ZZ_C04_prefix: every prefix of a valid frame of shape a, with the remaining
// length left as it is (the stream simply ends) and adjusted to the shortened
// size.
func ZZ_C04_prefix(a []int) {
	abs := zzGen(zzShapeOf(a))
	body := zzRefBody(abs)
	b0 := byte(abs.typ)<<4 | abs.hflags
	f := zzFrame(b0, body)
	cut := int(zzConc(uint64(zzInt("cut", 0, len(f)))))
	p, err := ReadPacket(&zzContig{b: f[:cut]})
	zzReach("prefix")
	zzAssert((p == nil) != (err == nil), "ReadPacket must return exactly one of packet and error")
	if cut <= len(body) {
		p2, err2 := ReadPacket(&zzContig{b: zzFrame(b0, body[:cut])})
		zzAssert((p2 == nil) != (err2 == nil), "ReadPacket must return exactly one of packet and error")
	}
	zzEmitU("cut", uint64(cut))
	zzEmitU("err", zzB2U(err != nil))
}

// ZZ_C04_big (T-mode): a valid frame of shape a - one string or binary field
// at a boundary length such as 65 534 or 65 535 bytes, everything else
// present - is decoded through ReadPacket and through UnmarshalBinary:
// offset arithmetic in 16-bit types wraps only for such lengths.
func ZZ_C04_big(a []int) {
	sh := zzShapeOf(a)
	sh.nz = 3
	abs := zzGen(sh)
	body := zzRefBody(abs)
	b0 := byte(abs.typ)<<4 | abs.hflags
	p, err := ReadPacket(&zzContig{b: zzFrame(b0, body)})
	zzReach("big")
	zzAssert((p == nil) != (err == nil), "ReadPacket must return exactly one of packet and error")
	q := zzNew(abs.typ)
	err2 := q.UnmarshalBinary(body)
	zzEmitU("err", zzB2U(err != nil))
	zzEmitU("err2", zzB2U(err2 != nil))
}

// ZZ_C04_reuse: UnmarshalBinary of a[0] arbitrary bytes into a packet value
// that has already decoded the valid body of shape a[1:] (every mapped
// property present, non-empty strings): the statement quantifies over byte
// sequences, not over fresh receivers, and state left by the first decode
// (recomputed widths, kept slices) must not make the second one panic.
func ZZ_C04_reuse(a []int) {
	abs := zzGen(zzShapeOf(a[1:]))
	p := zzNew(abs.typ)
	if p.UnmarshalBinary(zzRefBody(abs)) != nil {
		return
	}
	err := p.UnmarshalBinary(zzBytes("b", a[0]))
	zzReach("reuse")
	zzEmitU("err", zzB2U(err != nil))
}
