//go:build verif

package mq

// C04 — decoding never panics. Panics are engine-level path outcomes; the
// harnesses only have to drive the decoders with arbitrary bytes.

// zzVbParse is the harness' own reader of a variable byte integer at b[0:]:
// value, number of bytes, ok (terminated within four bytes).
func zzVbParse(b []byte) (int, int, bool) {
	v := 0
	for i := 0; i < len(b) && i < 4; i++ {
		v |= int(b[i]&0x7f) << (7 * uint(i))
		if b[i]&0x80 == 0 {
			return v, i + 1, true
		}
	}
	return 0, 0, false
}

// ZZ_C04_um: UnmarshalBinary of packet type a[0] on a[1] arbitrary bytes.
func ZZ_C04_um(a []int) {
	p := zzNew(a[0])
	data := zzBytes("b", a[1])
	err := p.UnmarshalBinary(data)
	zzReach("um")
	zzEmitU("err", zzB2U(err != nil))
}

// ZZ_C04_rp: ReadPacket on a stream of a[0] arbitrary bytes (contiguous
// reader). The declared remaining length is assumed <= a[0]+2: larger
// declarations only change how many bytes are allocated before the read
// comes back short.
func ZZ_C04_rp(a []int) {
	m := a[0]
	s := zzBytes("s", m)
	if m >= 2 {
		rl, _, ok := zzVbParse(s[1:])
		if ok {
			zzAssume(rl <= m+2)
		}
	}
	p, err := ReadPacket(&zzContig{b: s})
	zzReach("rp")
	zzAssert((p == nil) != (err == nil), "ReadPacket must return exactly one of packet and error")
	zzEmitU("err", zzB2U(err != nil))
}
