//go:build verif

package mq

// C15 — variable byte integers.

// zzRefVbWidth is the size class of x by the specification.
func zzRefVbWidth(x uint32) int {
	rw := 1
	if x >= 128 {
		rw = 2
	}
	if x >= 16384 {
		rw = 3
	}
	if x >= 2097152 {
		rw = 4
	}
	return rw
}

// ZZ_C15_enc: the encoder against shift/mask arithmetic, all 2^28 values.
func ZZ_C15_enc(a []int) {
	x := zzU32("x")
	zzAssume(x <= 268435455)
	buf := make([]byte, 5)
	w := vbint(x).fill(buf, 0)
	rw := zzRefVbWidth(x)
	zzReach("enc")
	zzAssert(w == rw, "fill width")
	zzAssert(vbint(x).width() == rw, "width()")
	zzAssert(vbint(x).fill(nil, 0) == rw, "dry-run width")
	for i := 0; i < 5; i++ {
		var e byte
		if i < rw {
			e = byte(x>>(7*uint(i))) & 0x7f
			if i < rw-1 {
				e |= 0x80
			}
		}
		zzAssert(buf[i] == e, "encoded byte")
	}
	zzEmitU("w", uint64(w))
	zzEmitB("buf", buf)
}

// ZZ_C15_rt: both decoders return the encoded value and advance by its width.
func ZZ_C15_rt(a []int) {
	x := zzU32("x")
	zzAssume(x <= 268435455)
	buf := make([]byte, 8)
	w := vbint(x).fill(buf, 0)
	// two trailing bytes that must not be looked at
	buf[w] = zzU8("t0")
	buf[w+1] = zzU8("t1")

	var v1 vbint
	b := &buffer{data: buf[:w+2]}
	b.get(&v1)
	zzReach("rt")
	zzAssert(b.err == nil, "in-memory decode of canonical form fails")
	zzAssert(uint32(v1) == x, "in-memory decode value")
	zzAssert(b.i == w, "in-memory decode advance")

	var v2 vbint
	r := &zzContig{b: buf[:w+2]}
	n, err := v2.ReadFrom(r)
	zzAssert(err == nil, "streaming decode of canonical form fails")
	zzAssert(uint32(v2) == x, "streaming decode value")
	zzAssert(int(n) == w, "streaming decode count")
	zzAssert(r.i == w, "streaming decode consumption")
	zzEmitU("v1", uint64(v1))
	zzEmitU("v2", uint64(v2))

	// a receiver that already holds a value is overwritten, not added to
	y := zzU32("y")
	zzAssume(y <= 268435455)
	buf2 := make([]byte, 4)
	w2 := vbint(y).fill(buf2, 0)
	zzAssert(v1.UnmarshalBinary(buf2[:w2]) == nil && uint32(v1) == y, "in-memory decode into a receiver that holds a value")
	_, err = v2.ReadFrom(&zzContig{b: buf2[:w2]})
	zzAssert(err == nil && uint32(v2) == y, "streaming decode into a receiver that holds a value")
}

// ZZ_C15_agree: on every byte sequence of length a[0] (all bytes symbolic)
// the two decoders agree on value or rejection; a sequence that ends on a
// continuation byte or has a fifth continuation byte is rejected by both.
func ZZ_C15_agree(a []int) {
	n := a[0]
	data := zzBytes("d", n)
	var v1 vbint
	e1 := v1.UnmarshalBinary(data)
	var v2 vbint
	_, e2 := v2.ReadFrom(&zzContig{b: data})
	zzReach("agree")

	// specification view, computed without the library
	term := -1 // index of the first byte without continuation bit
	for i := 0; i < n && term < 0; i++ {
		if data[i]&0x80 == 0 {
			term = i
		}
	}
	if term >= 0 && term <= 3 {
		var ref uint32
		for i := 0; i <= term; i++ {
			ref |= uint32(data[i]&0x7f) << (7 * uint(i))
		}
		if term == 0 || data[term] != 0 {
			// the minimal form of ref: both decoders must accept it
			zzAssert(e1 == nil, "in-memory decoder rejects a terminated 1..4 byte integer")
			zzAssert(e2 == nil, "streaming decoder rejects a terminated 1..4 byte integer")
		} else {
			// a padded (non-minimal) form: MQTT forbids it, a decoder may
			// accept or reject it - but both decoders alike
			zzAssert((e1 == nil) == (e2 == nil), "the two decoders disagree on a padded variable byte integer")
		}
		if e1 == nil {
			zzAssert(uint32(v1) == ref, "in-memory decoder value")
		}
		if e2 == nil {
			zzAssert(uint32(v2) == ref, "streaming decoder value")
		}
		zzEmitU("v1", uint64(v1))
		zzEmitU("v2", uint64(v2))
	} else {
		// no terminator within the first four bytes / within the data
		zzAssert(e1 != nil, "in-memory decoder accepts an integer without terminating byte or with a fifth byte")
		zzAssert(e2 != nil, "streaming decoder accepts an integer without terminating byte or with a fifth byte")
	}
	zzEmitU("e1", zzB2U(e1 == nil))
	zzEmitU("e2", zzB2U(e2 == nil))
}

// ZZ_C15_api: subscription identifier through the public API, full range.
func ZZ_C15_api(a []int) {
	x := zzU32("x")
	zzAssume(x >= 1 && x <= 268435455)
	p := NewSubscribe()
	p.SetPacketID(1)
	p.SetSubscriptionID(int(x))
	p.AddFilters(NewTopicFilter("a", 0))
	var w zzSink
	_, err := p.WriteTo(&w)
	zzAssert(err == nil, "WriteTo")
	q, err := ReadPacket(&zzContig{b: w.b})
	zzReach("api")
	zzAssert(err == nil, "ReadPacket of a SUBSCRIBE with subscription identifier")
	if err != nil {
		return
	}
	s, ok := q.(*Subscribe)
	zzAssert(ok, "type")
	if !ok {
		return
	}
	zzAssert(s.SubscriptionID() == int(x), "subscription identifier round trip")
	zzEmitU("sid", uint64(s.SubscriptionID()))
	zzEmitB("frame", w.b)
}
