//go:build verif

package mq

// zzBuild constructs the library packet for an abstract packet through the
// public constructors and setters only.

func zzAddUser(up *UserProperties, ps []zzProp) {
	for i := range ps {
		if ps[i].id == 0x26 {
			up.AddUserProp(string(ps[i].s), string(ps[i].v))
		}
	}
}

// zzDecoyWill makes zzBuild attach another will message first (ZZ_C01_rewill).
var zzDecoyWill bool

func zzBuildWill(a *zzAbs) *Publish {
	w := NewPublish()
	w.SetTopicName(string(a.willTopic))
	w.SetPayload(a.willPayload)
	w.SetQoS((a.connFlags >> 3) & 3)
	w.SetRetain(a.connFlags&0x20 != 0)
	for i := range a.willProps {
		p := &a.willProps[i]
		switch p.id {
		case 0x01:
			w.SetPayloadFormat(p.u != 0)
		case 0x02:
			w.SetMessageExpiryInterval(p.u)
		case 0x03:
			w.SetContentType(string(p.s))
		case 0x08:
			w.SetResponseTopic(string(p.s))
		case 0x09:
			w.SetCorrelationData(p.s)
		}
	}
	zzAddUser(&w.UserProperties, a.willProps)
	return w
}

func zzBuild(a *zzAbs) ControlPacket {
	switch a.typ {
	case 1:
		p := NewConnect()
		if a.protoSet {
			p.SetProtocolName(string(a.protoName))
			p.SetProtocolVersion(a.protoVer)
		}
		p.SetKeepAlive(a.keepAlive)
		p.SetCleanStart(a.connFlags&0x02 != 0)
		p.SetClientID(string(a.clientID))
		for i := range a.props {
			q := &a.props[i]
			switch q.id {
			case 0x11:
				p.SetSessionExpiryInterval(q.u)
			case 0x15:
				p.SetAuthMethod(string(q.s))
			case 0x16:
				p.SetAuthData(q.s)
			case 0x17:
				p.SetRequestProblemInfo(q.u != 0)
			case 0x19:
				p.SetRequestResponseInfo(q.u != 0)
			case 0x21:
				p.SetReceiveMax(uint16(q.u))
			case 0x22:
				p.SetTopicAliasMax(uint16(q.u))
			case 0x27:
				p.SetMaxPacketSize(q.u)
			}
		}
		zzAddUser(&p.UserProperties, a.props)
		if a.hasWill {
			w := zzBuildWill(a)
			if zzPHas(a.willProps, 0x18) {
				p.SetWillDelayInterval(uint32(zzPU(a.willProps, 0x18)))
			}
			if zzDecoyWill {
				// an earlier will message with its own QoS and retain flag
				// is replaced: nothing of it may survive
				d := NewPublish()
				d.SetQoS(zzU8("dq") & 3)
				d.SetRetain(zzBool("dr"))
				d.SetTopicName("decoy")
				d.SetPayload([]byte("dp"))
				p.SetWill(d)
			}
			p.SetWill(w)
		}
		if a.username != nil {
			p.SetUsername(string(a.username))
		}
		if a.password != nil {
			p.SetPassword(a.password)
		}
		return p
	case 2:
		p := NewConnAck()
		p.SetSessionPresent(a.ackFlags&1 != 0)
		p.SetReasonCode(ReasonCode(a.reason))
		for i := range a.props {
			q := &a.props[i]
			switch q.id {
			case 0x11:
				p.SetSessionExpiryInterval(q.u)
			case 0x12:
				p.SetAssignedClientID(string(q.s))
			case 0x13:
				p.SetServerKeepAlive(uint16(q.u))
			case 0x15:
				p.SetAuthMethod(string(q.s))
			case 0x16:
				p.SetAuthData(q.s)
			case 0x1a:
				p.SetResponseInformation(string(q.s))
			case 0x1c:
				p.SetServerReference(string(q.s))
			case 0x1f:
				p.SetReasonString(string(q.s))
			case 0x21:
				p.SetReceiveMax(uint16(q.u))
			case 0x22:
				p.SetTopicAliasMax(uint16(q.u))
			case 0x24:
				p.SetMaxQoS(uint8(q.u))
			case 0x25:
				p.SetRetainAvailable(q.u != 0)
			case 0x27:
				p.SetMaxPacketSize(q.u)
			case 0x28:
				p.SetWildcardSubAvailable(q.u != 0)
			case 0x29:
				p.SetSubIdentifiersAvailable(q.u != 0)
			case 0x2a:
				p.SetSharedSubAvailable(q.u != 0)
			}
		}
		zzAddUser(&p.UserProperties, a.props)
		return p
	case 3:
		p := NewPublish()
		p.SetDuplicate(a.hflags&8 != 0)
		p.SetQoS((a.hflags >> 1) & 3)
		p.SetRetain(a.hflags&1 != 0)
		p.SetTopicName(string(a.topic))
		if a.hflags&6 != 0 {
			p.SetPacketID(a.pid)
		}
		for i := range a.props {
			q := &a.props[i]
			switch q.id {
			case 0x01:
				p.SetPayloadFormat(q.u != 0)
			case 0x02:
				p.SetMessageExpiryInterval(q.u)
			case 0x03:
				p.SetContentType(string(q.s))
			case 0x08:
				p.SetResponseTopic(string(q.s))
			case 0x09:
				p.SetCorrelationData(q.s)
			case 0x0b:
				p.AddSubscriptionID(q.u)
			case 0x23:
				p.SetTopicAlias(uint16(q.u))
			}
		}
		zzAddUser(&p.UserProperties, a.props)
		if len(a.payload) > 0 {
			p.SetPayload(a.payload)
		}
		return p
	case 4:
		p := NewPubAck()
		p.SetPacketID(a.pid)
		p.SetReasonCode(ReasonCode(a.reason))
		if zzPHas(a.props, 0x1f) {
			p.SetReasonString(string(zzPS(a.props, 0x1f)))
		}
		zzAddUser(&p.UserProperties, a.props)
		return p
	case 5:
		p := NewPubRec()
		p.SetPacketID(a.pid)
		p.SetReasonCode(ReasonCode(a.reason))
		if zzPHas(a.props, 0x1f) {
			p.SetReasonString(string(zzPS(a.props, 0x1f)))
		}
		zzAddUser(&p.UserProperties, a.props)
		return p
	case 6:
		p := NewPubRel()
		p.SetPacketID(a.pid)
		p.SetReasonCode(ReasonCode(a.reason))
		if zzPHas(a.props, 0x1f) {
			p.SetReasonString(string(zzPS(a.props, 0x1f)))
		}
		zzAddUser(&p.UserProperties, a.props)
		return p
	case 7:
		p := NewPubComp()
		p.SetPacketID(a.pid)
		p.SetReasonCode(ReasonCode(a.reason))
		if zzPHas(a.props, 0x1f) {
			p.SetReasonString(string(zzPS(a.props, 0x1f)))
		}
		zzAddUser(&p.UserProperties, a.props)
		return p
	case 8:
		p := NewSubscribe()
		p.SetPacketID(a.pid)
		if zzPHas(a.props, 0x0b) {
			p.SetSubscriptionID(int(zzPU(a.props, 0x0b)))
		}
		zzAddUser(&p.UserProperties, a.props)
		for i := range a.filters {
			p.AddFilters(NewTopicFilter(string(a.filters[i]), Opt(a.opts[i])))
		}
		return p
	case 9:
		p := NewSubAck()
		p.SetPacketID(a.pid)
		if zzPHas(a.props, 0x1f) {
			p.SetReasonString(string(zzPS(a.props, 0x1f)))
		}
		zzAddUser(&p.UserProperties, a.props)
		for _, c := range a.codes {
			p.AddReasonCode(ReasonCode(c))
		}
		return p
	case 10:
		p := NewUnsubscribe()
		p.SetPacketID(a.pid)
		zzAddUser(&p.UserProperties, a.props)
		for i := range a.filters {
			p.AddFilter(string(a.filters[i]))
		}
		return p
	case 11:
		p := NewUnsubAck()
		p.SetPacketID(a.pid)
		if zzPHas(a.props, 0x1f) {
			p.SetReasonString(string(zzPS(a.props, 0x1f)))
		}
		zzAddUser(&p.UserProperties, a.props)
		for _, c := range a.codes {
			p.AddReasonCode(ReasonCode(c))
		}
		return p
	case 12:
		return NewPingReq()
	case 13:
		return NewPingResp()
	case 14:
		p := NewDisconnect()
		p.SetReasonCode(ReasonCode(a.reason))
		for i := range a.props {
			q := &a.props[i]
			switch q.id {
			case 0x11:
				p.SetSessionExpiryInterval(q.u)
			case 0x1c:
				p.SetServerReference(string(q.s))
			case 0x1f:
				p.SetReasonString(string(q.s))
			}
		}
		zzAddUser(&p.UserProperties, a.props)
		return p
	case 15:
		p := NewAuth()
		p.SetReasonCode(ReasonCode(a.reason))
		for i := range a.props {
			q := &a.props[i]
			switch q.id {
			case 0x15:
				p.SetAuthMethod(string(q.s))
			case 0x16:
				p.SetAuthData(q.s)
			case 0x1f:
				p.SetReasonString(string(q.s))
			}
		}
		zzAddUser(&p.UserProperties, a.props)
		return p
	}
	return nil
}
