//go:build verif

package mq

// C16 — packet type dispatch follows the first byte and header flags are kept.

// zzTypeOf: the type nibble a packet value stands for, by its dynamic type.
func zzTypeOf(p ControlPacket) int {
	switch p.(type) {
	case *Undefined:
		return 0
	case *Connect:
		return 1
	case *ConnAck:
		return 2
	case *Publish:
		return 3
	case *PubAck:
		return 4
	case *PubRec:
		return 5
	case *PubRel:
		return 6
	case *PubComp:
		return 7
	case *Subscribe:
		return 8
	case *SubAck:
		return 9
	case *Unsubscribe:
		return 10
	case *UnsubAck:
		return 11
	case *PingReq:
		return 12
	case *PingResp:
		return 13
	case *Disconnect:
		return 14
	case *Auth:
		return 15
	}
	return -1
}

// ZZ_C16_disp: the first byte is one symbol (all 256 values). For the type it
// selects a body valid for that type is used: a[0] = 0 minimal bodies,
// 1 remaining length 0 where the type allows, 2 richer bodies.
func ZZ_C16_disp(a []int) {
	b0 := zzU8("b0")
	typ := int(zzConc(uint64(b0 >> 4)))
	var body []byte
	switch a[0] {
	case 1:
		if typ != 0 && typ != 12 && typ != 13 && typ != 14 && typ != 15 {
			return
		}
	default:
		sh := zzShape{typ: typ, slen: 1, nList: 1, nz: 2}
		if a[0] == 2 {
			sh.nUser = 1
			sh.mask = 1
		}
		if a[0] == 3 || a[0] == 4 {
			// short forms: PUBACK family with the packet identifier only or
			// with a reason code and no property length, DISCONNECT with the
			// reason code only
			sh.form = a[0] - 2
			if !(typ >= 4 && typ <= 7) && typ != 14 && typ != 15 {
				return
			}
		}
		if typ == 0 {
			body = zzBytes("u", 3)
		} else {
			if typ == 3 {
				// the body must fit the QoS bits of b0 (packet identifier
				// only with QoS 1 and 2)
				sh.qos = int(zzConc(uint64(b0>>1) & 3))
			}
			body = zzRefBody(zzGen(sh))
		}
	}
	f := zzFrame(b0, body)
	q, err := ReadPacket(&zzContig{b: f})
	zzReach("disp")
	if typ == 3 && (b0>>1)&3 == 3 {
		// QoS 3 is malformed: a decoder may reject it; if it returns a
		// packet the flags must still follow the first byte
		if err != nil {
			return
		}
	}
	zzAssert(err == nil, "a frame with a body valid for its type is rejected")
	if err != nil {
		return
	}
	zzAssert(zzTypeOf(q) == typ, "the packet type does not follow the upper four bits of the first byte")
	if u, ok := q.(*Undefined); ok {
		zzAssert(zzBytesEq(u.Data(), body), "Undefined does not carry the frame's bytes")
	}
	if p, ok := q.(*Publish); ok {
		zzAssert(p.Duplicate() == (b0&8 != 0), "PUBLISH DUP does not follow the first byte")
		zzAssert(p.QoS() == (b0>>1)&3, "PUBLISH QoS does not follow the first byte")
		zzAssert(p.Retain() == (b0&1 != 0), "PUBLISH RETAIN does not follow the first byte")
	}
	if typ != 0 {
		var w zzSink
		_, werr := q.WriteTo(&w)
		zzAssert(werr == nil && len(w.b) > 0, "the decoded packet cannot be written")
		if len(w.b) > 0 {
			zzAssert(w.b[0] == b0, "writing the decoded packet does not reproduce the first byte")
		}
	}
	zzEmitU("type", uint64(zzTypeOf(q)))
}

// ZZ_C16_two: two frames of the same type on one stream whose first bytes
// differ only in the low four bits (both symbolic): the first packet, kept
// while the second is read, still reproduces its own first byte.
func ZZ_C16_two(a []int) {
	b1, b2 := zzU8("b1"), zzU8("b2")
	zzAssume(b1>>4 == b2>>4)
	typ := int(zzConc(uint64(b1 >> 4)))
	if typ == 0 || typ == 3 {
		return // Undefined cannot be written; PUBLISH bodies depend on the QoS bits (covered by ZZ_C16_disp)
	}
	body := zzRefBody(zzGen(zzShape{typ: typ, slen: 1, nList: 1, nz: 2}))
	s := append(zzFrame(b1, body), zzFrame(b2, body)...)
	r := &zzContig{b: s}
	q1, e1 := ReadPacket(r)
	if e1 != nil {
		return
	}
	q2, e2 := ReadPacket(r)
	zzReach("two")
	if e2 != nil {
		return
	}
	var w1, w2 zzSink
	q1.WriteTo(&w1)
	q2.WriteTo(&w2)
	zzAssert(len(w1.b) > 0 && w1.b[0] == b1, "a packet kept while the next one is read no longer reproduces its first byte")
	zzAssert(len(w2.b) > 0 && w2.b[0] == b2, "writing the decoded packet does not reproduce the first byte")
}
