//go:build verif

package mq

// C05 — decoding terminates with work and memory bounded by the frame size.
// The engine's step and allocation meters are the unwinding assertions: a
// path that exhausts its budget is a violation.

// zzListLen: number of list elements a packet holds.
func zzListLen(p ControlPacket) int {
	switch p := p.(type) {
	case *Connect:
		n := len(p.UserProperties)
		if w := p.Will(); w != nil {
			n += len(w.UserProperties) + len(w.SubscriptionIDs())
		}
		return n
	case *ConnAck:
		return len(p.UserProperties)
	case *Publish:
		return len(p.UserProperties) + len(p.SubscriptionIDs())
	case *PubAck:
		return len(p.UserProperties)
	case *PubRec:
		return len(p.UserProperties)
	case *PubRel:
		return len(p.UserProperties)
	case *PubComp:
		return len(p.UserProperties)
	case *Subscribe:
		return len(p.UserProperties) + len(p.Filters())
	case *SubAck:
		return len(p.UserProperties) + len(p.ReasonCodes())
	case *Unsubscribe:
		return len(p.UserProperties) + len(p.Filters())
	case *UnsubAck:
		return len(p.UserProperties) + len(p.ReasonCodes())
	case *Disconnect:
		return len(p.UserProperties)
	case *Auth:
		return len(p.UserProperties)
	}
	return 0
}

const (
	zzStepsPerByte = 3000
	zzAllocPerByte = 64
	zzAllocFixed   = 4096
)

// ZZ_C05_um: UnmarshalBinary of type a[0] on a[1] arbitrary bytes within
// budgets linear in a[1]; the (possibly half-built) receiver holds no more
// list elements than the input has bytes.
func ZZ_C05_um(a []int) {
	n := a[1]
	p := zzNew(a[0])
	data := zzBytes("b", n)
	zzSetBudget(zzStepsPerByte*(n+4), zzAllocPerByte*(n+4)+zzAllocFixed)
	err := p.UnmarshalBinary(data)
	zzReach("um")
	zzAssert(zzListLen(p) <= n, "the packet holds more list elements than the frame has bytes")
	zzEmitU("err", zzB2U(err != nil))
	zzEmitU("lists", uint64(zzListLen(p)))
}

// ZZ_C05_rp: ReadPacket on a[0] arbitrary bytes. The declared remaining
// length (assumed <= a[0]+2, see C04) is added to the allocation budget.
func ZZ_C05_rp(a []int) {
	m := a[0]
	s := zzBytes("s", m)
	decl := 0
	if m >= 2 {
		rl, _, ok := zzVbParse(s[1:])
		if ok {
			zzAssume(rl <= m+2)
			decl = m + 2
		}
	}
	zzSetBudget(zzStepsPerByte*(m+4), zzAllocPerByte*(m+4)+zzAllocFixed+decl)
	p, err := ReadPacket(&zzContig{b: s})
	zzReach("rp")
	if err == nil {
		zzAssert(zzListLen(p) <= m, "the packet holds more list elements than the frame has bytes")
	}
	zzEmitU("err", zzB2U(err != nil))
}

// ZZ_C05_lists: frames whose repeated sections are truncated, empty or
// inconsistent: SUBSCRIBE / UNSUBSCRIBE / SUBACK / UNSUBACK (a[0]) with a
// packet identifier, an empty property section and a[1] arbitrary bytes of
// payload.
func ZZ_C05_lists(a []int) {
	n := a[1]
	body := append([]byte{0, 1, 0}, zzBytes("p", n)...)
	p := zzNew(a[0])
	zzSetBudget(zzStepsPerByte*(n+7), zzAllocPerByte*(n+7)+zzAllocFixed)
	err := p.UnmarshalBinary(body)
	zzReach("lists")
	zzAssert(zzListLen(p) <= n+3, "the packet holds more list elements than the frame has bytes")
	zzEmitU("err", zzB2U(err != nil))
	zzEmitU("lists", uint64(zzListLen(p)))
}

// ZZ_C05_many: a valid frame of shape a (concrete values, many user
// properties / list elements) is decoded under budgets linear in its length.
func ZZ_C05_many(a []int) {
	abs := zzGen(zzShapeOf(a))
	body := zzRefBody(abs)
	n := len(body)
	p := zzNew(abs.typ)
	if abs.typ == 3 {
		p = &Publish{}
		body = zzRefBody(func() *zzAbs { x := *abs; x.hflags = 0; x.pid = 0; return &x }())
		n = len(body)
	}
	steps := zzStepsPerByte * (n + 4)
	if n > 4096 {
		// long fields are moved by bulk copies: the per-byte work is small
		steps = zzStepsPerByte*4100 + 40*n
	}
	zzSetBudget(steps, zzAllocPerByte*(n+4)+zzAllocFixed)
	err := p.UnmarshalBinary(body)
	zzBudgetCheck()
	zzReach("many")
	zzAssert(err == nil, "a valid frame with many list elements is rejected")
	zzAssert(zzListLen(p) <= n, "the packet holds more list elements than the frame has bytes")
	zzEmitU("lists", uint64(zzListLen(p)))
}
