//go:build verif

package mq

// C09 — frames the decoder must reject are rejected.

func zzMustReject(f []byte, label string) {
	// the step budget is per call and linear in the frame length
	zzSetBudget(200000+60*len(f), 1<<40)
	q, err := ReadPacket(&zzContig{b: f})
	zzAssert(err != nil, label)
	if err != nil {
		zzAssert(q == nil, "a packet is returned together with an error")
	}
}

// ZZ_C09_cut (a): a valid frame from the reference encoder is cut strictly
// inside each of its units, the remaining length is set to the shortened
// size, and ReadPacket must reject it. a = shape.
func ZZ_C09_cut(a []int) {
	sh := zzShapeOf(a)
	abs := zzGen(sh)
	body, units := zzRefBodyU(abs)
	b0 := byte(abs.typ)<<4 | abs.hflags
	ncut := 0
	for _, u := range units {
		for c := u[0] + 1; c < u[1]; c++ {
			// long strings: the cuts next to both ends and one in the middle
			if u[1]-u[0] > 12 && c > u[0]+4 && c < u[1]-3 && c != (u[0]+u[1])/2 {
				continue
			}
			zzMustReject(zzFrame(b0, body[:c]), "a frame that ends inside a field is accepted")
			ncut++
		}
	}
	if ncut > 0 {
		zzReach("cut")
	}
	zzEmitU("cuts", uint64(ncut))
}

// zzSpliceProps builds a frame of type typ whose property section is exactly
// props (raw bytes), everything else minimal and valid.
func zzSpliceProps(typ int, props []byte) (byte, []byte) {
	var e zzEnc
	b0 := byte(typ)<<4 | zzLegalFlags(typ)
	switch typ {
	case 1:
		e.str([]byte("MQTT"))
		e.u8(5)
		e.u8(0)
		e.u16(0)
	case 2:
		e.u8(0)
		e.u8(0)
	case 3:
		e.str([]byte("t"))
	case 4, 5, 6, 7:
		e.u16(1)
		e.u8(0)
	case 8, 9, 10, 11:
		e.u16(1)
	case 14, 15:
		e.u8(0)
	}
	e.b = append(e.b, props...)
	switch typ {
	case 1:
		e.str([]byte("c"))
	case 8:
		e.str([]byte("f"))
		e.u8(0)
	case 10:
		e.str([]byte("f"))
	case 9, 11:
		e.u8(0)
	}
	return b0, e.b
}

// ZZ_C09_vb5 (b): a variable byte integer with four continuation bytes.
// a[0] = position: 0 remaining length, 1 property length of type a[1],
// 2 subscription identifier (SUBSCRIBE), 3 subscription identifier (PUBLISH).
func ZZ_C09_vb5(a []int) {
	v := zzBytes("v", 5)
	for i := 0; i < 4; i++ {
		zzAssume(v[i]&0x80 != 0)
	}
	const label = "a variable byte integer of more than four bytes is accepted"
	switch a[0] {
	case 0:
		f := []byte{byte(a[1]) << 4}
		f = append(f, v...)
		f = append(f, zzBytes("t", 3)...)
		zzMustReject(f, label)
	case 1:
		b0, body := zzSpliceProps(a[1], v)
		zzMustReject(zzFrame(b0, body), label)
	case 2:
		props := append([]byte{6, 0x0b}, v...)
		b0, body := zzSpliceProps(8, props)
		zzMustReject(zzFrame(b0, body), label)
	case 3:
		props := append([]byte{6, 0x0b}, v...)
		b0, body := zzSpliceProps(3, props)
		zzMustReject(zzFrame(b0, body), label)
	}
	zzReach("vb5")
}

// ZZ_C09_bool (c): a boolean property of packet type a[0] (or of the will if
// a[0] == 16) with identifier a[1] and a symbolic value >= 2.
func ZZ_C09_bool(a []int) {
	x := zzU8("x")
	zzAssume(x >= 2)
	props := []byte{2, byte(a[1]), x}
	const label = "a boolean property with a value other than 0 or 1 is accepted"
	if a[0] == zzWill {
		var e zzEnc
		e.str([]byte("MQTT"))
		e.u8(5)
		e.u8(0x04)
		e.u16(0)
		e.u8(0)
		e.str([]byte("c"))
		e.b = append(e.b, props...)
		e.str([]byte("t"))
		e.str(nil)
		zzMustReject(zzFrame(0x10, e.b), label)
	} else {
		b0, body := zzSpliceProps(a[0], props)
		zzMustReject(zzFrame(b0, body), label)
	}
	zzReach("bool")
}

// ZZ_C09_undef (d): a property with an identifier MQTT v5.0 does not define
// (one symbol for all 229 of them) in the property section of packet type
// a[0], followed by a[1] arbitrary bytes inside the section.
func ZZ_C09_undef(a []int) {
	id := zzU8("id")
	zzAssume(zzPropType(id) == 0)
	rest := zzBytes("r", a[1])
	props := append([]byte{byte(1 + a[1]), id}, rest...)
	b0, body := zzSpliceProps(a[0], props)
	zzMustReject(zzFrame(b0, body), "an undefined property identifier is accepted")
	zzReach("undef")
}
