//go:build verif

package mq

// C18 — diagnostics never disclose credentials: non-interference by
// self-composition. Two CONNECT packets that differ only in the contents of
// equally long, non-empty credentials must render identically.

func zzRender(p ControlPacket) string {
	var w zzRopeW
	Dump(&w, p)
	return p.String() + "\n" + w.String()
}

// ZZ_C18_ni: a[0] = 0 built through the API / 1 decoded from the wire,
// a[1] = user name length, a[2] = password length (>= 1), a[3:] = shape of
// the rest of the CONNECT (credentials excluded).
func ZZ_C18_ni(a []int) {
	sh := zzShapeOf(a[3:])
	sh.typ = 1
	sh.cred = 0
	base := zzGen(sh)
	dom := true
	mk := func(tag string) *zzAbs {
		x := *base
		u := zzBytes("user"+tag, a[1])
		for i := range u {
			dom = zzAnd(dom, zzAnd(u[i] >= 0x20, u[i] <= 0x7e))
		}
		x.username, x.hasUser = u, true
		x.password, x.hasPass = zzBytes("pass"+tag, a[2]), true
		x.connFlags |= 0xc0
		return &x
	}
	absA, absB := mk("A"), mk("B")
	zzAssume(dom)
	var pA, pB ControlPacket
	if a[0] == 0 {
		pA, pB = zzBuild(absA), zzBuild(absB)
	} else {
		qa, ea := ReadPacket(&zzContig{b: zzRefEncode(absA)})
		qb, eb := ReadPacket(&zzContig{b: zzRefEncode(absB)})
		if ea != nil || eb != nil {
			return
		}
		pA, pB = qa, qb
	}
	rA, rB := zzRender(pA), zzRender(pB)
	zzReach("ni")
	zzAssert(zzStrEq(rA, rB), "Dump/String output depends on the contents of user name or password")
	zzEmitS("render", rA)
}
