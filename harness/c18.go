//go:build verif

package mq

// C18 — diagnostics never disclose credentials: non-interference by
// self-composition. Two CONNECT packets that differ only in the contents of
// equally long, non-empty credentials must render identically.

func zzRender(p ControlPacket) string {
	var w zzRopeW
	Dump(&w, p)
	return p.String() + "\n" + w.String()
}

// ZZ_C18_ni: a[0] = 0 built through the API / 1 decoded from the wire,
// a[1] = user name length, a[2] = password length (>= 1), a[3:] = shape of
// the rest of the CONNECT (credentials excluded).
func ZZ_C18_ni(a []int) {
	sh := zzShapeOf(a[3:])
	sh.typ = 1
	sh.cred = 0
	base := zzGen(sh)
	dom := true
	mk := func(tag string) *zzAbs {
		x := *base
		// credential bytes are unconstrained (a multi-byte character in one
		// name and not in the other must not show)
		u := zzBytes("user"+tag, a[1])
		x.username, x.hasUser = u, true
		x.password, x.hasPass = zzBytes("pass"+tag, a[2]), true
		x.connFlags |= 0xc0
		return &x
	}
	absA, absB := mk("A"), mk("B")
	zzAssume(dom)
	var pA, pB ControlPacket
	if a[0] == 0 {
		pA, pB = zzBuild(absA), zzBuild(absB)
	} else {
		qa, ea := ReadPacket(&zzContig{b: zzRefEncode(absA)})
		qb, eb := ReadPacket(&zzContig{b: zzRefEncode(absB)})
		if ea != nil || eb != nil {
			return
		}
		pA, pB = qa, qb
	}
	rA, rB := zzRender(pA), zzRender(pB)
	zzReach("ni")
	zzAssert(zzStrEq(rA, rB), "Dump/String output depends on the contents of user name or password")
	zzEmitS("render", rA)
}

// ZZ_C18_window: two CONNECT frames that differ only in the credential bytes
// (two concrete pairs of length 2) and in which the same window of a[0] bytes before the
// credentials is unconstrained (malformed-but-accepted frames, e.g. a
// property that claims more bytes than its section has): whenever both are
// accepted they must render identically. a[1:] = shape (concrete template).
func ZZ_C18_window(a []int) {
	w := a[0]
	sh := zzShapeOf(a[1:])
	sh.typ, sh.cred, sh.nz = 1, 0, 3
	base := zzGen(sh)
	var creds [][]byte
	mk := func(tag string) []byte {
		x := *base
		// concrete, different credentials: symbolic ones would be parsed as
		// structure by the damaged frames and explode; all credential values
		// are covered on valid frames by ZZ_C18_ni
		x.username, x.hasUser = []byte("u"+tag), true
		x.password, x.hasPass = []byte{'p', tag[0] + 7}, true
		x.connFlags |= 0xc0
		creds = append(creds, x.username, x.password)
		return zzRefBody(&x)
	}
	bA, bB := mk("A"), mk("B")
	limit := len(bA) - 8 // the window stays in front of the credentials
	if limit < w {
		return
	}
	off := int(zzConc(uint64(zzInt("off", 0, limit-w))))
	win := zzBytes("win", w)
	copy(bA[off:], win)
	copy(bB[off:], win)
	pA, pB := &Connect{}, &Connect{}
	eA, eB := pA.UnmarshalBinary(bA), pB.UnmarshalBinary(bB)
	if eA != nil || eB != nil {
		return
	}
	// only frames in which those bytes still are the credentials (a window
	// that, say, stretches the protocol name over them turns them into
	// something else)
	if len(pA.Username()) != 2 || len(pA.Password()) != 2 || len(pB.Username()) != 2 || len(pB.Password()) != 2 {
		return
	}
	zzAssume(zzAnd(zzAnd(zzBytesEq([]byte(pA.Username()), creds[0]), zzBytesEq(pA.Password(), creds[1])),
		zzAnd(zzBytesEq([]byte(pB.Username()), creds[2]), zzBytesEq(pB.Password(), creds[3]))))
	zzReach("window")
	zzAssert(zzStrEq(zzRender(pA), zzRender(pB)), "Dump/String output depends on the contents of user name or password")
}
