//go:build verif

package mq

// C03 — every valid MQTT v5.0 frame is accepted and decoded to its values.

// ZZ_C03_dec (S-mode): the frame comes from the reference encoder.
func ZZ_C03_dec(a []int) {
	sh := zzShapeOf(a)
	abs := zzGen(sh)
	f := zzRefEncode(abs)
	q, err := ReadPacket(&zzContig{b: f})
	zzReach("dec")
	zzAssert(err == nil, "ReadPacket rejects a valid frame")
	if err != nil {
		return
	}
	got := zzSnap(q)
	zzViewEq(got, zzExpect(abs), "valid frame")
	zzEmitU("len", uint64(len(f)))
	if len(f) <= 64 {
		zzEmitB("frame", f)
		zzViewEmit(got, "q.")
	}
}

// zzLegalFlags: the header flag nibble the specification fixes for a type
// (PUBLISH: given by arg).
func zzLegalFlags(typ int) byte {
	switch typ {
	case 6, 8, 10:
		return 2
	}
	return 0
}

// ZZ_C03_cls (A-mode): a[0] = type, a[1] = body length, a[2] = 3 or 9
// (which property's assertions are active), a[3] = PUBLISH QoS.
// All body bytes are symbolic; the reference decoder classifies the frame.
func ZZ_C03_cls(a []int) {
	typ, n, mode := a[0], a[1], a[2]
	b0 := byte(typ)<<4 | zzLegalFlags(typ)
	if typ == 3 && len(a) > 3 {
		b0 |= byte(a[3]) << 1
	}
	body := zzBytes("b", n)
	f := zzFrame(b0, body)
	q, err := ReadPacket(&zzContig{b: f})
	ref, verdict := zzRefDecode(b0, body)
	zzReach("cls")
	zzEmitU("verdict", uint64(verdict))
	zzEmitU("err", zzB2U(err != nil))
	if mode == 3 {
		if verdict != zzVALID {
			return
		}
		zzReach("cls-valid")
		zzAssert(err == nil, "ReadPacket rejects a valid frame")
		if err != nil {
			return
		}
		zzViewEq(zzSnap(q), zzExpect(ref), "valid frame")
		return
	}
	switch verdict {
	case zzTRUNC:
		zzReach("cls-trunc")
		zzAssert(err != nil, "a frame that ends inside a field is accepted")
	case zzVBLONG:
		zzReach("cls-vblong")
		zzAssert(err != nil, "a variable byte integer of more than four bytes is accepted")
	case zzBADBOOL:
		zzReach("cls-badbool")
		zzAssert(err != nil, "a boolean property with a value other than 0 or 1 is accepted")
	case zzUNDEFPROP:
		zzReach("cls-undef")
		zzAssert(err != nil, "an undefined property identifier is accepted")
	}
	if err != nil {
		zzAssert(q == nil, "a packet is returned together with an error")
	}
}
