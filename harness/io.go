//go:build verif

package mq

import "io"

// Environment stubs: readers and writers whose nondeterminism (how many
// bytes a Read returns, where the transport fails) is drawn from symbolic
// inputs constrained by the io.Reader / io.Writer contracts.

// zzErr is the transport error of the stubs.
type zzErr struct{ id int }

func (e *zzErr) Error() string { return "zz transport error" }

// zzFrag delivers b in chunks of symbolic size. At most two consecutive
// (0, nil) results; the last chunk comes as (n, io.EOF) if eofWithData.
type zzFrag struct {
	b           []byte
	i           int
	k           int
	zeros       int
	maxZeros    int
	eofWithData bool
	name        string
	limit       int // > 0: after this many short chunks the rest is delivered as asked for
	short       int
}

func (r *zzFrag) Read(p []byte) (int, error) {
	rest := len(r.b) - r.i
	if rest == 0 {
		return 0, io.EOF
	}
	if len(p) == 0 {
		return 0, nil
	}
	mx := len(p)
	if rest < mx {
		mx = rest
	}
	lo := 0
	if r.zeros >= r.maxZeros {
		lo = 1
	}
	n := mx
	if r.limit == 0 || r.short < r.limit {
		n = zzInt(r.name+zzItoa(r.k), lo, mx)
		r.k++
		n = int(zzConc(uint64(n)))
		if n < mx {
			r.short++
		}
	}
	if n == 0 {
		r.zeros++
		return 0, nil
	}
	r.zeros = 0
	copy(p, r.b[r.i:r.i+n])
	r.i += n
	if r.i == len(r.b) && r.eofWithData {
		return n, io.EOF
	}
	return n, nil
}

// zzCut delivers the first cut bytes of b (as much as asked for per Read) and
// then fails: mode 0: (0, io.EOF) forever; 1: (0, E) forever; 2: the last
// delivered chunk comes together with E.
type zzCut struct {
	b    []byte
	cut  int
	i    int
	mode int
	e    error
}

func (r *zzCut) Read(p []byte) (int, error) {
	fail := error(io.EOF)
	if r.mode != 0 {
		fail = r.e
	}
	if r.i >= r.cut {
		return 0, fail
	}
	if len(p) == 0 {
		return 0, nil
	}
	n := r.cut - r.i
	if len(p) < n {
		n = len(p)
	}
	copy(p, r.b[r.i:r.i+n])
	r.i += n
	if r.mode == 2 && r.i >= r.cut {
		return n, fail
	}
	return n, nil
}

// zzFailW fails before writing anything.
type zzFailW struct {
	e     error
	calls int
}

func (w *zzFailW) Write(p []byte) (int, error) {
	w.calls++
	return 0, w.e
}

// zzShortW accepts the first k bytes it is offered - over as many Write
// calls as it takes - and then reports e; calls after that are counted.
type zzShortW struct {
	k      int
	e      error
	b      []byte
	calls  int
	failed bool
	after  int
}

func (w *zzShortW) Write(p []byte) (int, error) {
	w.calls++
	if w.failed {
		w.after++
		return 0, w.e
	}
	room := w.k - len(w.b)
	if room >= len(p) {
		w.b = append(w.b, p...)
		return len(p), nil
	}
	w.b = append(w.b, p[:room]...)
	w.failed = true
	return room, w.e
}
