//go:build verif

package mq

// C07 — the decoded packet does not depend on how the stream is fragmented.
// C08 — a stream that ends or fails inside a packet is reported.

import (
	"errors"
	"io"
)

// zzFragCompare reads f once contiguously and once through a fragmenting
// reader whose chunk sizes are symbolic, and compares the results.
func zzFragCompare(f []byte, maxZeros int) { zzFragCompareL(f, maxZeros, 0) }

// zzFragCompareL: limit > 0 bounds the number of short chunks (the split
// points stay symbolic), for frames too long for all compositions.
func zzFragCompareL(f []byte, maxZeros, limit int) {
	q1, e1 := ReadPacket(&zzContig{b: f})
	fr := &zzFrag{b: f, name: "chunk", maxZeros: maxZeros, limit: limit, eofWithData: zzBool("eofWithData")}
	q2, e2 := ReadPacket(fr)
	zzReach("frag")
	zzAssert((e1 == nil) == (e2 == nil), "acceptance depends on how the stream is fragmented")
	if e1 == nil && e2 == nil {
		zzViewEq(zzSnap(q2), zzSnap(q1), "fragmentation changes the packet")
	}
	zzEmitU("err1", zzB2U(e1 != nil))
	zzEmitU("err2", zzB2U(e2 != nil))
}

// zzStreamAssume: the stream is one whole frame whose declared remaining
// length is what follows (so that contiguous reading sees a complete frame).
func zzWholeFrame(s []byte) bool {
	if len(s) < 2 {
		return false
	}
	rl, n, ok := zzVbParse(s[1:])
	// the remaining length in its minimal form: a sequence with a padded
	// length field is not a frame, and a decoder may reject it as soon as it
	// has seen the padding
	return ok && 1+n+rl == len(s) && (n == 1 || s[n] != 0)
}

// ZZ_C07_amode: a stream of a[0] arbitrary bytes that is exactly one frame
// (by its own remaining length); a[1] = allowed consecutive empty reads.
func ZZ_C07_amode(a []int) {
	s := zzBytes("s", a[0])
	zzAssume(zzWholeFrame(s))
	zzFragCompare(s, a[1])
}

// ZZ_C07_smode: a valid frame of shape a[1:] from the reference encoder;
// a[0] = allowed consecutive empty reads.
func ZZ_C07_smode(a []int) {
	zzFragCompare(zzRefEncode(zzGen(zzShapeOf(a[1:]))), a[0])
}

// ZZ_C07_splits: a valid frame of shape a[2:] delivered with at most a[1]
// short chunks at symbolic positions (every pair / triple of split points),
// a[0] = allowed consecutive empty reads.
func ZZ_C07_splits(a []int) {
	zzFragCompareL(zzRefEncode(zzGen(zzShapeOf(a[2:]))), a[0], a[1])
}

// zzCutCompare delivers a proper prefix of f and then ends or fails.
// mode 0: EOF, 1: (0, E), 2: (j, E) with the last bytes.
func zzCutCompare(f []byte, mode int) {
	e := &zzErr{id: 7}
	cut := zzInt("cut", 0, len(f)-1)
	cut = int(zzConc(uint64(cut)))
	r := &zzCut{b: f, cut: cut, mode: mode, e: e}
	q, err := ReadPacket(r)
	zzReach("cut")
	zzAssert(err != nil, "a packet is returned although the stream ended or failed inside the frame")
	if err == nil {
		return
	}
	zzAssert(q == nil, "a packet is returned together with an error")
	if mode == 0 {
		if cut == 0 {
			zzAssert(errors.Is(err, io.EOF), "end of stream on a frame boundary is not reported as io.EOF")
		}
	} else {
		zzAssert(errors.Is(err, e), "the reader's error is not reported (errors.Is)")
	}
	zzEmitU("cut", uint64(cut))
}

// ZZ_C08_amode: a[0] arbitrary bytes forming one whole frame, cut mode a[1].
func ZZ_C08_amode(a []int) {
	s := zzBytes("s", a[0])
	zzAssume(zzWholeFrame(s))
	zzCutCompare(s, a[1])
}

// ZZ_C08_smode: valid frame of shape a[1:], cut mode a[0].
func ZZ_C08_smode(a []int) {
	zzCutCompare(zzRefEncode(zzGen(zzShapeOf(a[1:]))), a[0])
}

// zzSched delivers b by a fixed schedule: kind 0: one byte per Read; 1: one
// byte per Read with a (0, nil) read before each; 2: three bytes per Read;
// 3: everything but the last byte, then the last byte together with io.EOF.
type zzSched struct {
	b     []byte
	i     int
	kind  int
	empty bool
}

func (r *zzSched) Read(p []byte) (int, error) {
	rest := len(r.b) - r.i
	if rest == 0 {
		return 0, io.EOF
	}
	if len(p) == 0 {
		return 0, nil
	}
	n := 1
	switch r.kind {
	case 1:
		r.empty = !r.empty
		if r.empty {
			return 0, nil
		}
	case 2:
		n = 3
	case 3:
		n = rest - 1
		if n < 1 {
			n = 1
		}
	}
	if n > len(p) {
		n = len(p)
	}
	if n > rest {
		n = rest
	}
	copy(p, r.b[r.i:r.i+n])
	r.i += n
	if r.kind == 3 && r.i == len(r.b) {
		return n, io.EOF
	}
	return n, nil
}

// ZZ_C07_sched: a[0] = schedule kind, a[1:] = shape (also large frames).
func ZZ_C07_sched(a []int) {
	f := zzRefEncode(zzGen(zzShapeOf(a[1:])))
	q1, e1 := ReadPacket(&zzContig{b: f})
	q2, e2 := ReadPacket(&zzSched{b: f, kind: a[0]})
	zzReach("sched")
	zzAssert((e1 == nil) == (e2 == nil), "acceptance depends on how the stream is fragmented")
	if e1 == nil && e2 == nil {
		zzViewEq(zzSnap(q2), zzSnap(q1), "fragmentation changes the packet")
	}
	zzEmitU("err1", zzB2U(e1 != nil))
	zzEmitU("err2", zzB2U(e2 != nil))
}

// ZZ_C08_bigcut: a large valid frame of shape a[1:] cut at positions around
// the header, in the middle, around 16 384 and at the end; failure mode a[0].
func ZZ_C08_bigcut(a []int) {
	f := zzRefEncode(zzGen(zzShapeOf(a[1:])))
	L := len(f)
	cuts := []int{0, 1, 2, 3, 4, 5, 6, 8, 12, 20, L / 2, L - 2, L - 1}
	for _, c := range []int{127, 128, 129, 4095, 4096, 4097, 16383, 16384, 16385, 16386, 16400, 32767, 32768, 32769, 32780, 40000, 65535, 65536, 65537, 65550} {
		if c < L {
			cuts = append(cuts, c)
		}
	}
	e := &zzErr{id: 7}
	for _, cut := range cuts {
		if cut < 0 || cut >= L {
			continue
		}
		r := &zzCut{b: f, cut: cut, mode: a[0], e: e}
		q, err := ReadPacket(r)
		zzAssert(err != nil, "a packet is returned although the stream ended or failed inside the frame")
		if err == nil {
			continue
		}
		zzAssert(q == nil, "a packet is returned together with an error")
		if a[0] == 0 {
			if cut == 0 {
				zzAssert(errors.Is(err, io.EOF), "end of stream on a frame boundary is not reported as io.EOF")
			}
		} else {
			zzAssert(errors.Is(err, e), "the reader's error is not reported (errors.Is)")
		}
	}
	zzReach("bigcut")
	zzEmitU("len", uint64(L))
}
