//go:build verif

package mq

// C07 — the decoded packet does not depend on how the stream is fragmented.
// C08 — a stream that ends or fails inside a packet is reported.

import (
	"errors"
	"io"
)

// zzFragCompare reads f once contiguously and once through a fragmenting
// reader whose chunk sizes are symbolic, and compares the results.
func zzFragCompare(f []byte, maxZeros int) {
	q1, e1 := ReadPacket(&zzContig{b: f})
	fr := &zzFrag{b: f, name: "chunk", maxZeros: maxZeros, eofWithData: zzBool("eofWithData")}
	q2, e2 := ReadPacket(fr)
	zzReach("frag")
	zzAssert((e1 == nil) == (e2 == nil), "acceptance depends on how the stream is fragmented")
	if e1 == nil && e2 == nil {
		zzViewEq(zzSnap(q2), zzSnap(q1), "fragmentation changes the packet")
	}
	zzEmitU("err1", zzB2U(e1 != nil))
	zzEmitU("err2", zzB2U(e2 != nil))
}

// zzStreamAssume: the stream is one whole frame whose declared remaining
// length is what follows (so that contiguous reading sees a complete frame).
func zzWholeFrame(s []byte) bool {
	if len(s) < 2 {
		return false
	}
	rl, n, ok := zzVbParse(s[1:])
	return ok && 1+n+rl == len(s)
}

// ZZ_C07_amode: a stream of a[0] arbitrary bytes that is exactly one frame
// (by its own remaining length); a[1] = allowed consecutive empty reads.
func ZZ_C07_amode(a []int) {
	s := zzBytes("s", a[0])
	zzAssume(zzWholeFrame(s))
	zzFragCompare(s, a[1])
}

// ZZ_C07_smode: a valid frame of shape a[1:] from the reference encoder;
// a[0] = allowed consecutive empty reads.
func ZZ_C07_smode(a []int) {
	zzFragCompare(zzRefEncode(zzGen(zzShapeOf(a[1:]))), a[0])
}

// zzCutCompare delivers a proper prefix of f and then ends or fails.
// mode 0: EOF, 1: (0, E), 2: (j, E) with the last bytes.
func zzCutCompare(f []byte, mode int) {
	e := &zzErr{id: 7}
	cut := zzInt("cut", 0, len(f)-1)
	cut = int(zzConc(uint64(cut)))
	r := &zzCut{b: f, cut: cut, mode: mode, e: e}
	q, err := ReadPacket(r)
	zzReach("cut")
	zzAssert(err != nil, "a packet is returned although the stream ended or failed inside the frame")
	if err == nil {
		return
	}
	zzAssert(q == nil, "a packet is returned together with an error")
	if mode == 0 {
		if cut == 0 {
			zzAssert(errors.Is(err, io.EOF), "end of stream on a frame boundary is not reported as io.EOF")
		}
	} else {
		zzAssert(errors.Is(err, e), "the reader's error is not reported (errors.Is)")
	}
	zzEmitU("cut", uint64(cut))
}

// ZZ_C08_amode: a[0] arbitrary bytes forming one whole frame, cut mode a[1].
func ZZ_C08_amode(a []int) {
	s := zzBytes("s", a[0])
	zzAssume(zzWholeFrame(s))
	zzCutCompare(s, a[1])
}

// ZZ_C08_smode: valid frame of shape a[1:], cut mode a[0].
func ZZ_C08_smode(a []int) {
	zzCutCompare(zzRefEncode(zzGen(zzShapeOf(a[1:]))), a[0])
}
