//go:build verif

package mq

// Strict reference decoder, written from the MQTT v5.0 specification text.
// It classifies a frame and, when the frame is valid, returns what it
// carries. It shares nothing with the library.

const (
	zzVALID     = 0
	zzTRUNC     = 1 // the frame ends strictly inside a field
	zzVBLONG    = 2 // a variable byte integer continues beyond four bytes
	zzBADBOOL   = 3 // a boolean property with a value other than 0 or 1
	zzUNDEFPROP = 4 // a property identifier MQTT v5.0 does not define
	zzPROTOVAL  = 5 // well-structured, but a value or flag the specification forbids
	zzOTHER     = 6 // any other structural problem
)

type zzDec struct {
	b    []byte
	i    int
	sec  int  // end of the enclosing declared section (property section), or len(b)
	hard int  // first hard problem (0 = none)
	soft bool // a value-level protocol error was seen
}

func (d *zzDec) fail(v int) {
	if d.hard == 0 {
		d.hard = v
	}
}

// need checks that n more bytes of a field exist. A field that would fit its
// declared section but not the frame means the frame ends inside it.
func (d *zzDec) need(n int, mid bool) bool {
	if d.hard != 0 {
		return false
	}
	if d.i+n > d.sec {
		d.fail(zzOTHER)
		return false
	}
	if d.i+n > len(d.b) {
		if d.i < len(d.b) || mid {
			d.fail(zzTRUNC)
		} else {
			d.fail(zzOTHER) // a whole field is missing: not "inside a field"
		}
		return false
	}
	return true
}

func (d *zzDec) u8(mid bool) byte {
	if !d.need(1, mid) {
		return 0
	}
	v := d.b[d.i]
	d.i++
	return v
}

func (d *zzDec) u16(mid bool) uint16 {
	if !d.need(2, mid) {
		return 0
	}
	v := uint16(d.b[d.i])<<8 | uint16(d.b[d.i+1])
	d.i += 2
	return v
}

func (d *zzDec) u32(mid bool) uint32 {
	if !d.need(4, mid) {
		return 0
	}
	v := uint32(d.b[d.i])<<24 | uint32(d.b[d.i+1])<<16 | uint32(d.b[d.i+2])<<8 | uint32(d.b[d.i+3])
	d.i += 4
	return v
}

func (d *zzDec) str(mid bool) []byte {
	n := int(d.u16(mid))
	if d.hard != 0 {
		return nil
	}
	if !d.need(n, true) {
		return nil
	}
	s := d.b[d.i : d.i+n]
	d.i += n
	return s
}

func (d *zzDec) vbi(mid bool) uint32 {
	var v uint32
	for k := 0; k < 4; k++ {
		if !d.need(1, mid || k > 0) {
			return 0
		}
		c := d.b[d.i]
		d.i++
		v |= uint32(c&0x7f) << (7 * uint(k))
		if c&0x80 == 0 {
			if k > 0 && c == 0 {
				// not the minimum number of bytes [MQTT-1.5.5-1]: malformed,
				// but not one of the classes C09 names
				d.fail(zzOTHER)
				return 0
			}
			return v
		}
	}
	d.fail(zzVBLONG)
	return 0
}

// props reads a property section for context ctx.
func (d *zzDec) props(ctx int) []zzProp {
	if d.hard != 0 {
		return nil
	}
	n := int(d.vbi(false))
	if d.hard != 0 {
		return nil
	}
	end := d.i + n
	outer := d.sec
	if end > outer {
		d.fail(zzOTHER)
		return nil
	}
	d.sec = end
	var ps []zzProp
	for d.hard == 0 && d.i < end {
		if d.i >= len(d.b) {
			// the declared section runs past the end of the frame and the
			// frame ends exactly between two properties
			d.fail(zzOTHER)
			break
		}
		id := d.b[d.i]
		d.i++
		t := zzPropType(id)
		if t == 0 {
			d.fail(zzUNDEFPROP)
			break
		}
		p := zzProp{id: id}
		switch t {
		case zzTByte:
			p.u = uint32(d.u8(true))
			if d.hard == 0 && zzPropBool(id) && p.u > 1 {
				d.fail(zzBADBOOL)
			}
			if d.hard == 0 && id == 0x24 && p.u > 1 {
				d.soft = true
			}
		case zzTU16:
			p.u = uint32(d.u16(true))
		case zzTU32:
			p.u = d.u32(true)
		case zzTVbi:
			p.u = d.vbi(true)
		case zzTStr, zzTBin:
			p.s = d.str(true)
		case zzTPair:
			p.s = d.str(true)
			p.v = d.str(true)
		}
		if d.hard != 0 {
			break
		}
		if !zzPropAllowed(ctx, id) {
			d.soft = true
		}
		if id != 0x26 && !(id == 0x0b && ctx == 3) && zzPHas(ps, id) {
			d.soft = true // appears more than once
		}
		switch id {
		case 0x21, 0x23, 0x27, 0x0b:
			if p.u == 0 {
				d.soft = true
			}
		}
		ps = append(ps, p)
	}
	d.sec = outer
	return ps
}

// zzRefDecode classifies the frame (first byte b0, body) and decodes it.
func zzRefDecode(b0 byte, body []byte) (*zzAbs, int) {
	d := &zzDec{b: body, sec: len(body)}
	typ := int(b0 >> 4)
	a := &zzAbs{typ: typ, hflags: b0 & 0x0f}
	trailingList := false
	switch typ {
	case 1:
		if a.hflags != 0 {
			d.soft = true
		}
		a.protoName = d.str(false)
		a.protoVer = d.u8(false)
		a.connFlags = d.u8(false)
		a.keepAlive = d.u16(false)
		a.props = d.props(1)
		a.clientID = d.str(false)
		if d.hard == 0 {
			f := a.connFlags
			if len(a.protoName) != 4 || a.protoName[0] != 'M' || a.protoName[1] != 'Q' || a.protoName[2] != 'T' || a.protoName[3] != 'T' || a.protoVer != 5 {
				d.soft = true
			}
			if f&0x01 != 0 || f&0x18 == 0x18 {
				d.soft = true
			}
			if f&0x04 == 0 && f&0x38 != 0 {
				d.soft = true
			}
			if f&0x04 != 0 {
				a.hasWill = true
				a.willProps = d.props(zzWill)
				a.willTopic = d.str(false)
				a.willPayload = d.str(false)
			}
			if f&0x80 != 0 {
				a.hasUser = true
				a.username = d.str(false)
			}
			if f&0x40 != 0 {
				a.hasPass = true
				a.password = d.str(false)
			}
		}
	case 2:
		if a.hflags != 0 {
			d.soft = true
		}
		a.ackFlags = d.u8(false)
		a.reason = d.u8(false)
		a.props = d.props(2)
		if a.ackFlags&0xfe != 0 {
			d.soft = true
		}
	case 3:
		if a.hflags&0x06 == 0x06 {
			d.soft = true
		}
		a.topic = d.str(false)
		if a.hflags&0x06 != 0 {
			a.pid = d.u16(false)
			if d.hard == 0 && a.pid == 0 {
				d.soft = true
			}
		}
		a.props = d.props(3)
		if d.hard == 0 {
			a.payload = d.b[d.i:]
			d.i = len(d.b)
			if len(a.topic) == 0 && !zzPHas(a.props, 0x23) {
				d.soft = true
			}
		}
	case 4, 5, 6, 7:
		want := byte(0)
		if typ == 6 {
			want = 2
		}
		if a.hflags != want {
			d.soft = true
		}
		a.pid = d.u16(false)
		a.form = 2
		if d.hard == 0 && d.i < len(d.b) {
			a.form = 1
			a.reason = d.u8(false)
			if d.hard == 0 && d.i < len(d.b) {
				a.form = 0
				a.props = d.props(typ)
			}
		}
	case 8, 10:
		if a.hflags != 2 {
			d.soft = true
		}
		a.pid = d.u16(false)
		a.props = d.props(typ)
		trailingList = true
		n := 0
		for d.hard == 0 && d.i < len(d.b) {
			f := d.str(false)
			if d.hard != 0 {
				break
			}
			a.filters = append(a.filters, f)
			if len(f) == 0 {
				d.soft = true
			}
			if typ == 8 {
				o := d.u8(false)
				if d.hard != 0 {
					break
				}
				a.opts = append(a.opts, o)
				if o&0xc0 != 0 || o&0x03 == 3 || o&0x30 == 0x30 {
					d.soft = true
				}
			}
			n++
		}
		if d.hard == 0 && n == 0 {
			d.fail(zzOTHER)
		}
	case 9, 11:
		if a.hflags != 0 {
			d.soft = true
		}
		a.pid = d.u16(false)
		a.props = d.props(typ)
		trailingList = true
		if d.hard == 0 {
			a.codes = d.b[d.i:]
			d.i = len(d.b)
			if len(a.codes) == 0 {
				d.fail(zzOTHER)
			}
		}
	case 12, 13:
		if a.hflags != 0 {
			d.soft = true
		}
	case 14, 15:
		if a.hflags != 0 {
			d.soft = true
		}
		a.form = 2
		if len(d.b) > 0 {
			a.form = 1
			a.reason = d.u8(false)
			if d.hard == 0 && d.i < len(d.b) {
				a.form = 0
				a.props = d.props(typ)
			} else if typ == 15 {
				d.soft = true // AUTH of remaining length 1 is not a listed form
			}
		}
	default:
		d.fail(zzOTHER)
	}
	_ = trailingList
	if d.hard == 0 && d.i != len(d.b) {
		d.fail(zzOTHER) // bytes after the last field
	}
	if d.hard != 0 {
		if d.soft && d.hard != zzOTHER {
			// a frame that also carries a forbidden value is outside what the
			// rejection clauses quantify over
			return a, zzPROTOVAL
		}
		return a, d.hard
	}
	if d.soft {
		return a, zzPROTOVAL
	}
	return a, zzVALID
}
