#!/usr/bin/env python3
"""Confirm a seeded mutant and run checks against it.
usage: mutcheck.py <Cxx> <A|B> [--props C01,C02] [--tier quick]
The mutant lives in /tmp/mut/<Cxx>/MUTANTS/<A|B>.diff with <A|B>_demo_test.go.
Nothing is committed to /repo; the patch is applied, the checks run, and the tree is restored."""
import sys, os, subprocess, json, shutil, re, time
ENV = dict(os.environ, GOFLAGS="-mod=mod", GOPROXY="off", GOSUMDB="off", GOTOOLCHAIN="local")
def sh(cmd, cwd=None, timeout=1800):
    p = subprocess.run(cmd, shell=True, cwd=cwd, env=ENV, stdout=subprocess.PIPE, stderr=subprocess.STDOUT, text=True, timeout=timeout)
    return p.returncode, p.stdout
def main():
    pid, which = sys.argv[1], sys.argv[2]
    props = [pid]; tier = "quick"; root = "/tmp/mut"; tag = ""
    for i, a in enumerate(sys.argv):
        if a == "--props": props = sys.argv[i+1].split(",")
        if a == "--tier": tier = sys.argv[i+1]
        if a == "--root": root = sys.argv[i+1]
        if a == "--tag": tag = sys.argv[i+1] + "-"
    wt = f"{root}/{pid}"
    md = f"{wt}/MUTANTS"
    diff = f"{md}/{which}.diff"; demo = f"{md}/{which}_demo_test.go"
    out = f"/verif/seeded/{pid}-{tag}{which}"
    os.makedirs(out, exist_ok=True)
    meta = {"id": f"{pid}-{tag}{which}", "breaks_property": pid, "source": "independent sub-agent given only the property text and a scratch worktree"}
    if os.path.exists(f"{md}/{which}.md"):
        meta["needs_to_manifest"] = open(f"{md}/{which}.md").read()
    ran = []
    # 1. confirm in the scratch worktree
    sh("git checkout -- . && git clean -fdq -e MUTANTS", wt)
    rc, o = sh(f"git apply {diff}", wt); assert rc == 0, o
    rc, o = sh("go build ./... && go test -vet=off -count=1 . ./docs", wt)
    ran.append({"cmd": "existing suite with mutant", "exit": rc}); suite_ok = rc == 0
    shutil.copy(demo, f"{wt}/zz_demo_test.go")
    m = re.findall(r"func (Test\w+)\(", open(demo).read())
    runpat = "^(" + "|".join(m) + ")$"
    rc, o = sh(f"go test -vet=off -count=1 -run '{runpat}' .", wt, timeout=600)
    ran.append({"cmd": f"demo with mutant (-run {runpat})", "exit": rc, "tail": o[-600:]}); demo_fails = rc != 0
    sh(f"git apply -R {diff}", wt)
    rc, o = sh(f"go test -vet=off -count=1 -run '{runpat}' .", wt, timeout=600)
    ran.append({"cmd": "demo on the unmodified tree", "exit": rc}); demo_passes = rc == 0
    os.remove(f"{wt}/zz_demo_test.go")
    sh("git checkout -- . && git clean -fdq -e MUTANTS", wt)
    meta["confirmed"] = {"existing_suite_passes_with_mutant": suite_ok, "demo_fails_with_mutant": demo_fails, "demo_passes_without": demo_passes}
    shutil.copy(diff, f"{out}/patch.diff"); shutil.copy(demo, f"{out}/demo_test.go")
    results = {}
    if suite_ok and demo_fails and demo_passes:
        # 2. run the checks against /repo with the patch applied
        rc, o = sh("git status --porcelain", "/repo"); assert o.strip() == "", "/repo not clean: " + o
        rc, o = sh(f"git apply {diff}", "/repo"); assert rc == 0, o
        try:
            for p in props:
                t0 = time.time()
                ev = f"/verif/evidence/{p}.json"
                saved = open(ev).read() if os.path.exists(ev) else None
                try:
                    rc, o = sh(f"./check {p} {tier}", "/verif", timeout=3600)
                finally:
                    # the evidence file describes runs on the unchanged tree only
                    if saved is not None:
                        open(ev, "w").write(saved)
                viol = [l for l in o.splitlines() if l.startswith("VIOLATION") or l.startswith("  signature") or l.startswith("INCONCLUSIVE") or l.startswith("ENCODING")]
                results[p] = {"exit": rc, "wall_s": round(time.time()-t0, 1), "lines": viol[:12]}
                print(f"  {pid}-{tag}{which} vs {p} {tier}: exit={rc}  {len([l for l in viol if l.startswith('VIOLATION')])} violations", flush=True)
                for l in viol[:6]: print("      " + l[:200])
        finally:
            sh("git checkout -- . && git clean -fdq", "/repo")
    meta["what_i_ran"] = ran
    meta.setdefault("check_results", {}).update(results)
    # merge with earlier results
    mp = f"{out}/meta.json"
    if os.path.exists(mp):
        old = json.load(open(mp))
        cr = old.get("check_results", {}); cr.update(results); meta["check_results"] = cr
    json.dump(meta, open(mp, "w"), indent=1)
    print(f"{pid}-{tag}{which}: confirmed={meta['confirmed']}")
main()
