#!/usr/bin/env python3
"""False-alarm testing: applies a change that is claimed to KEEP every property
(written by a sub-agent that saw only the property texts) to /repo, checks that
it builds and passes the existing suite, runs quick checks, restores /repo and
the evidence files, and records the outcome under /verif/benign/<name>/.

usage: bencheck.py <worktree-dir> <A|B|C> <name> [--props C01,C02,...]
"""
import json, os, shutil, subprocess, sys, time

ENV = dict(os.environ, GOFLAGS="-mod=mod", GOPROXY="off", GOSUMDB="off", GOTOOLCHAIN="local")
ALL = ["C%02d" % i for i in range(1, 20)]


def sh(cmd, cwd=None, timeout=3600):
    p = subprocess.run(cmd, shell=True, cwd=cwd, env=ENV, capture_output=True, text=True, timeout=timeout)
    return p.returncode, p.stdout + p.stderr


def main():
    wt, x, name = sys.argv[1], sys.argv[2], sys.argv[3]
    props = ALL
    if "--props" in sys.argv:
        props = sys.argv[sys.argv.index("--props") + 1].split(",")
    diff = os.path.join(wt, "BENIGN", x + ".diff")
    note = os.path.join(wt, "BENIGN", x + ".md")
    rc, out = sh("git status --short", "/repo")
    if out.strip():
        print("repo not clean:", out)
        return 2
    rc, out = sh("git apply --check " + diff, "/repo")
    if rc != 0:
        print("does not apply:", out)
        return 2
    bak = "/tmp/evidence.bencheck"
    shutil.rmtree(bak, ignore_errors=True)
    shutil.copytree("/verif/evidence", bak)
    res = {"name": name, "diff": diff, "checks": {}}
    try:
        sh("git apply " + diff, "/repo")
        rc, out = sh("go build ./... && go test -vet=off -count=1 ./... 2>&1 | tail -5", "/repo")
        res["suite"] = out.strip().splitlines()[-2:]
        if rc != 0 or "FAIL" in out:
            print("suite fails:", out)
            res["suite_ok"] = False
        else:
            res["suite_ok"] = True
            for p in props:
                t0 = time.time()
                rc, out = sh("./check %s %s" % (p, os.environ.get("BEN_TIER", "quick")), "/verif", timeout=12000)
                lines = [l for l in out.splitlines() if not l.startswith("WARNING conda")]
                flagged = [l[:600] for l in lines if l.startswith(("VIOLATION", "INCONCLUSIVE", "UNCONFIRMED", "ENCODING-MISMATCH", "NOTE", "  signature"))]
                res["checks"][p] = {"exit": rc, "wall_s": round(time.time() - t0, 1), "flagged": flagged[:12], "summary": lines[-1][:300] if lines else ""}
                print(name, p, "exit", rc, "%.0fs" % (time.time() - t0), flush=True)
                for l in flagged[:6]:
                    print("    ", l[:300])
    finally:
        sh("git checkout -- . && git clean -fdq", "/repo")
        for f in os.listdir(bak):
            shutil.copy(os.path.join(bak, f), "/verif/evidence/" + f)
    d = "/verif/benign/" + name + ("" if os.environ.get("BEN_TIER", "quick") == "quick" else "-" + os.environ["BEN_TIER"])
    os.makedirs(d, exist_ok=True)
    shutil.copy(diff, d + "/patch.diff")
    if os.path.exists(note):
        shutil.copy(note, d + "/notes.md")
    json.dump(res, open(d + "/result.json", "w"), indent=1)
    bad = [p for p, r in res["checks"].items() if r["exit"] != 0]
    print(name, "suite_ok", res.get("suite_ok"), "non-zero:", bad)
    return 0


if __name__ == "__main__":
    sys.exit(main())
